// Package rawframe writes and splits HTTP/2 frames byte by byte, for what
// x/net's Framer refuses to emit (reserved bits, lying lengths, odd flags).
package rawframe

import "encoding/binary"

const (
	Data         = 0
	Headers      = 1
	Priority     = 2
	RstStream    = 3
	Settings     = 4
	PushPromise  = 5
	Ping         = 6
	GoAway       = 7
	WindowUpdate = 8
	Continuation = 9
)

const (
	FlagEndStream  = 0x1
	FlagAck        = 0x1
	FlagEndHeaders = 0x4
	FlagPadded     = 0x8
	FlagPriority   = 0x20
)

// Append writes one frame with the true payload length.
func Append(dst []byte, typ, flags byte, stream uint32, payload []byte) []byte {
	return AppendLen(dst, len(payload), typ, flags, stream, payload)
}

// AppendLen writes a frame header announcing length, followed by payload as is.
func AppendLen(dst []byte, length int, typ, flags byte, stream uint32, payload []byte) []byte {
	dst = append(dst, byte(length>>16), byte(length>>8), byte(length), typ, flags)
	dst = binary.BigEndian.AppendUint32(dst, stream)
	return append(dst, payload...)
}

func U32(v uint32) []byte { return binary.BigEndian.AppendUint32(nil, v) }

// Header is a parsed 9-octet frame header.
type Header struct {
	Length   int
	Type     byte
	Flags    byte
	Stream   uint32
	Reserved bool
}

func ParseHeader(b []byte) (Header, bool) {
	if len(b) < 9 {
		return Header{}, false
	}
	s := binary.BigEndian.Uint32(b[5:9])
	return Header{Length: int(b[0])<<16 | int(b[1])<<8 | int(b[2]), Type: b[3], Flags: b[4], Stream: s & 0x7fffffff, Reserved: s>>31 == 1}, true
}

// Split cuts a byte stream into complete frames (header+payload); rest is the
// incomplete tail.
func Split(b []byte) (frames [][]byte, rest []byte) {
	for {
		h, ok := ParseHeader(b)
		if !ok || len(b) < 9+h.Length {
			return frames, b
		}
		frames = append(frames, b[:9+h.Length])
		b = b[9+h.Length:]
	}
}

// SettingsPayload encodes id/value pairs.
func SettingsPayload(kv [][2]uint32) []byte {
	var p []byte
	for _, s := range kv {
		p = append(p, byte(s[0]>>8), byte(s[0]))
		p = binary.BigEndian.AppendUint32(p, s[1])
	}
	return p
}

// Padded wraps body as [padlen] body [pad...].
func Padded(body []byte, padLen int, fill byte) []byte {
	p := append([]byte{byte(padLen)}, body...)
	for i := 0; i < padLen; i++ {
		p = append(p, fill)
	}
	return p
}

// PrioritySection is the 5-octet dependency+weight block.
func PrioritySection(dep uint32, excl bool, weight byte) []byte {
	if excl {
		dep |= 1 << 31
	}
	return append(binary.BigEndian.AppendUint32(nil, dep), weight)
}
