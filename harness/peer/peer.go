// Package peer is the client-role scripted peer that drives the server under
// test over an in-memory connection: raw frame writing, an x/net based frame
// reader with strict HPACK decoding of what the server emits, a gated request
// handler, and the quiescence test built on the verif hook counters.
package peer

import (
	"bytes"
	"fmt"
	"io"
	"runtime"
	"strings"
	"sync"
	"sync/atomic"
	"time"

	"github.com/dgrr/http2"
	"github.com/valyala/fasthttp"
	xh2 "golang.org/x/net/http2"
	"golang.org/x/net/http2/hpack"

	"verif/harness/memconn"
	"verif/harness/pooltrack"
	"verif/harness/rawframe"
	"verif/harness/refhpack"
)

const Preface = "PRI * HTTP/2.0\r\n\r\nSM\r\n\r\n"

// Event is one frame (or end of stream) the peer received from the server.
type Event struct {
	Seq       int
	Kind      string // headers data rst goaway settings settingsack ping pingack window push priority unknown eof error
	Stream    uint32
	EndStream bool
	Fields    []refhpack.Field
	HdrErr    string // strict decoder's complaint about the header block
	Data      []byte
	Code      uint32
	Last      uint32
	Incr      uint32
	Ping      [8]byte
	Settings  [][2]uint32
	Length    int // frame payload length (for HEADERS: of each fragment's largest frame)
	Frames    int // frames the header block was spread over
	Err       string
	Debug     string
	SizeUpd   []uint32
	Limit     int64 // the receiver's MAX_FRAME_SIZE in force when the frame(s) arrived
}

// Seen is a request as the handler saw it through the fasthttp API.
type Seen struct {
	Tag     string
	Method  string
	URI     string
	Host    string
	Fields  []refhpack.Field // every header from Header.All(), names lower-cased
	Body    []byte
	Proto   string
	Entered int // order of entry
}

// Resp is what the handler is told to produce for one request tag.
type Resp struct {
	Status  int              `json:"status"`
	Fields  []refhpack.Field `json:"fields,omitempty"`
	BodyLen int              `json:"blen,omitempty"`
	// Mode: 0 buffered; 1 streamed with declared size; 2 streamed unknown size (-1); 3 streamed, declared size 0 / empty
	Mode int `json:"mode,omitempty"`
	// Chunks: sizes the stream reader returns per Read (cycled); 0 entries mean "return n>0 then (0,EOF)" vs (n,EOF)
	Chunks  []int `json:"chunks,omitempty"`
	EOFWith bool  `json:"eofwith,omitempty"` // last Read returns (n, io.EOF) instead of (n,nil) then (0,io.EOF)
	Gate    bool  `json:"gate,omitempty"`    // park until released
	Panic   bool  `json:"panic,omitempty"`
	ReadErr bool  `json:"readerr,omitempty"` // stream reader fails midway
}

// BodyFor is the deterministic body of a response/request tag.
func BodyFor(tag string, n int) []byte {
	b := make([]byte, n)
	seed := 0
	for _, c := range tag {
		seed = seed*31 + int(c)
	}
	for i := range b {
		b[i] = byte('a' + (i*7+seed+i/251)%26)
	}
	if n >= len(tag)+2 {
		copy(b, "<"+tag+">")
	}
	return b
}

type chunkReader struct {
	data    []byte
	chunks  []int
	i       int
	eofWith bool
	failAt  int
	read    int
	closed  *atomic.Int32
}

func (r *chunkReader) Read(p []byte) (int, error) {
	if r.failAt > 0 && r.read >= r.failAt {
		return 0, fmt.Errorf("harness: injected body read error")
	}
	if len(r.data) == 0 {
		return 0, io.EOF
	}
	n := len(p)
	if len(r.chunks) > 0 {
		c := r.chunks[r.i%len(r.chunks)]
		r.i++
		if c > 0 && c < n {
			n = c
		}
	}
	if n > len(r.data) {
		n = len(r.data)
	}
	copy(p, r.data[:n])
	r.data = r.data[n:]
	r.read += n
	if len(r.data) == 0 && r.eofWith {
		return n, io.EOF
	}
	return n, nil
}

func (r *chunkReader) Close() error {
	if r.closed != nil {
		r.closed.Add(1)
	}
	return nil
}

type logSink struct {
	mu    sync.Mutex
	lines []string
}

func (l *logSink) Printf(format string, args ...interface{}) {
	s := fmt.Sprintf(format, args...)
	l.mu.Lock()
	if len(l.lines) < 200 {
		if len(s) > 600 {
			s = s[:600]
		}
		l.lines = append(l.lines, s)
	}
	l.mu.Unlock()
}

func (l *logSink) Lines() []string {
	l.mu.Lock()
	defer l.mu.Unlock()
	return append([]string(nil), l.lines...)
}

// Config of one server-under-test instance.
type Config struct {
	MaxConcurrentStreams int
	MaxHeaderListSize    int
	MaxRequestBodySize   int
	IdleTimeout          time.Duration
	ReadTimeout          time.Duration
	PingInterval         time.Duration // 0 -> disabled
	Responses            map[string]Resp
	DefaultResp          Resp
	Tracker              *pooltrack.Tracker
	// TagOf extracts the request tag from what the handler sees; default: first path segment.
	QuiesceTimeout time.Duration
	NoPreface      bool // the caller writes the client preface itself
}

// H is one connection between the scripted peer and a server under test.
type H struct {
	Cfg   Config
	C     *memconn.Conn // peer end
	S     *memconn.Conn // server end
	Stats *http2.VerifServerStats
	Log   *logSink

	ServeErr  error
	ServeDone chan struct{}

	mu                    sync.Mutex
	Events                []Event
	seen                  []Seen
	entered               int
	exited                int
	parked                int
	inFlight, MaxInFlight int
	gates                 map[string]chan struct{}
	waiting               map[string]int  // handlers at a gate, per tag
	opened                map[string]bool // gates that have been released
	allOpen               bool
	gateAll               chan struct{}

	readerDone chan struct{}
	readerGone atomic.Bool

	// decoding state for what the server sends
	Dec  *refhpack.Decoder
	xdec *hpack.Decoder

	// encoder model for what we send
	Enc *refhpack.Encoder

	// flow-control ledgers for what the server may send us
	ConnWin   int64
	StreamWin map[uint32]int64
	InitWin   int64
	RecvData  map[uint32]int64
	MaxFrame  int64 // our SETTINGS_MAX_FRAME_SIZE as acknowledged
	FCViol    string

	BodyClosed atomic.Int32
}

// Tag of a request: "/t12/..." -> "t12".
func TagOfURI(uri string) string {
	s := strings.TrimPrefix(uri, "/")
	for i := 0; i < len(s); i++ {
		if s[i] == '/' || s[i] == '?' {
			return s[:i]
		}
	}
	return s
}

// Start creates the connection, starts ServeConn and the peer's reader, and
// sends the client preface (not SETTINGS: callers choose theirs).
func Start(cfg Config) *H {
	if cfg.QuiesceTimeout == 0 {
		cfg.QuiesceTimeout = 10 * time.Second
	}
	c, s := memconn.Pair()
	h := &H{Cfg: cfg, C: c, S: s, Log: &logSink{}, ServeDone: make(chan struct{}), gates: map[string]chan struct{}{}, waiting: map[string]int{}, opened: map[string]bool{},
		gateAll: make(chan struct{}), readerDone: make(chan struct{}), Dec: refhpack.NewDecoder(4096), xdec: hpack.NewDecoder(4096, nil),
		Enc: refhpack.NewEncoder(4096), ConnWin: 65535, StreamWin: map[uint32]int64{}, InitWin: 65535, RecvData: map[uint32]int64{}, MaxFrame: 16384}
	h.Stats = http2.VerifServerStatsFor(s)
	fs := &fasthttp.Server{Handler: h.handle, Logger: h.Log, MaxRequestBodySize: cfg.MaxRequestBodySize, IdleTimeout: cfg.IdleTimeout, ReadTimeout: cfg.ReadTimeout,
		NoDefaultServerHeader: true, NoDefaultDate: true}
	ping := cfg.PingInterval
	if ping == 0 {
		ping = -1
	}
	srv := http2.ConfigureServer(fs, http2.ServerConfig{PingInterval: ping, MaxConcurrentStreams: cfg.MaxConcurrentStreams, MaxHeaderListSize: cfg.MaxHeaderListSize})
	go func() {
		h.ServeErr = srv.ServeConn(s)
		close(h.ServeDone)
	}()
	go h.readLoop()
	if !cfg.NoPreface {
		_, _ = c.Write([]byte(Preface))
	}
	return h
}

// StartRaw is Start without the client preface: the caller supplies every octet.
func StartRaw(cfg Config) *H {
	cfg.NoPreface = true
	return Start(cfg)
}

// Close tears the connection down from the peer side and forgets the stats.
func (h *H) Close() {
	h.ReleaseAll()
	_ = h.C.Close()
	select {
	case <-h.ServeDone:
	case <-time.After(3 * time.Second):
	}
	http2.VerifForget(h.S)
}

// ---- handler ------------------------------------------------------------

func (h *H) handle(ctx *fasthttp.RequestCtx) {
	var sn Seen
	sn.Method = string(ctx.Method())
	sn.URI = string(ctx.Request.Header.RequestURI())
	sn.Host = string(ctx.Request.Header.Host())
	sn.Proto = string(ctx.Request.Header.Protocol())
	for k, v := range ctx.Request.Header.All() {
		sn.Fields = append(sn.Fields, refhpack.Field{Name: strings.ToLower(string(k)), Value: string(v)})
	}
	sn.Body = append([]byte(nil), ctx.Request.Body()...)
	sn.Tag = TagOfURI(sn.URI)

	h.mu.Lock()
	sn.Entered = h.entered
	h.entered++
	h.inFlight++
	if h.inFlight > h.MaxInFlight {
		h.MaxInFlight = h.inFlight
	}
	h.seen = append(h.seen, sn)
	r, ok := h.Cfg.Responses[sn.Tag]
	if !ok {
		r = h.Cfg.DefaultResp
	}
	var gate chan struct{}
	if r.Gate {
		gate = h.gates[sn.Tag]
		if gate == nil {
			gate = make(chan struct{})
			h.gates[sn.Tag] = gate
		}
	}
	h.mu.Unlock()
	if h.Cfg.Tracker != nil {
		h.Cfg.Tracker.InHandler(ctx, true)
	}
	defer func() {
		if h.Cfg.Tracker != nil {
			h.Cfg.Tracker.InHandler(ctx, false)
		}
		h.mu.Lock()
		h.exited++
		h.inFlight--
		h.mu.Unlock()
	}()

	if gate != nil {
		h.mu.Lock()
		h.waiting[sn.Tag]++
		h.mu.Unlock()
		select {
		case <-gate:
		case <-h.gateAll:
		}
		h.mu.Lock()
		h.waiting[sn.Tag]--
		h.mu.Unlock()
		// the context must still be ours: touch it
		_ = ctx.Request.Header.Method()
	}
	if r.Panic {
		panic("harness: handler panic requested for " + sn.Tag)
	}
	st := r.Status
	if st == 0 {
		st = 200
	}
	ctx.Response.SetStatusCode(st)
	for _, f := range r.Fields {
		ctx.Response.Header.Add(f.Name, f.Value)
	}
	body := BodyFor(sn.Tag, r.BodyLen)
	switch r.Mode {
	case 0:
		ctx.Response.SetBody(body)
	case 1, 2, 3:
		rd := &chunkReader{data: body, chunks: r.Chunks, eofWith: r.EOFWith, closed: &h.BodyClosed}
		if r.ReadErr {
			rd.failAt = len(body)/2 + 1
		}
		size := len(body)
		if r.Mode == 2 {
			size = -1
		}
		if r.Mode == 3 {
			rd.data = nil
			size = 0
			if len(r.Chunks) > 0 && r.Chunks[0]%2 == 1 {
				size = -1
			}
		}
		ctx.Response.SetBodyStream(rd, size)
	}
}

// Release lets the gated handler of tag continue.
func (h *H) Release(tag string) {
	h.mu.Lock()
	g := h.gates[tag]
	if g == nil {
		g = make(chan struct{})
		h.gates[tag] = g
	}
	select {
	case <-g:
	default:
		close(g)
	}
	h.opened[tag] = true
	h.mu.Unlock()
}

// ReleaseAll opens every gate, present and future.
func (h *H) ReleaseAll() {
	h.mu.Lock()
	select {
	case <-h.gateAll:
	default:
		close(h.gateAll)
	}
	h.allOpen = true
	h.mu.Unlock()
}

func (h *H) SeenCopy() []Seen {
	h.mu.Lock()
	defer h.mu.Unlock()
	return append([]Seen(nil), h.seen...)
}

// HandlerCounts: parked counts only handlers blocked at a gate that has not
// been released (a handler at a released gate is about to run on).
func (h *H) HandlerCounts() (entered, exited, parked int) {
	h.mu.Lock()
	defer h.mu.Unlock()
	if !h.allOpen {
		for tag, n := range h.waiting {
			if !h.opened[tag] {
				parked += n
			}
		}
	}
	return h.entered, h.exited, parked
}

// ---- writing ------------------------------------------------------------

func (h *H) Write(b []byte) error {
	_, err := h.C.Write(b)
	return err
}

// SendSettings writes a SETTINGS frame and applies the values the peer model
// needs (initial window for streams the server sends on, our table size, max frame).
func (h *H) SendSettings(kv [][2]uint32) {
	// whatever widens what the server may do (a larger window, a larger frame size) is booked before the frame
	// is written, whatever narrows it after: the server acts on the frame at some moment after the write, and
	// the ledger must never be stricter than the server is entitled to be at that moment. A parameter named
	// several times in one frame takes its last value (RFC 7540 6.5.3: processed in order).
	final := map[uint32]uint32{}
	for _, s := range kv {
		switch s[0] {
		case 4:
			if s[1] <= 0x7fffffff {
				final[4] = s[1]
			}
		case 5:
			if s[1] >= 16384 && s[1] <= 1<<24-1 {
				final[5] = s[1]
			}
		}
	}
	apply := func(widen bool) {
		h.mu.Lock()
		if v, ok := final[4]; ok && int64(v) != h.InitWin && (int64(v) > h.InitWin) == widen {
			delta := int64(v) - h.InitWin
			h.InitWin = int64(v)
			for id := range h.StreamWin {
				h.StreamWin[id] += delta
			}
		}
		if v, ok := final[5]; ok && (int64(v) > h.MaxFrame) == widen {
			h.MaxFrame = int64(v)
		}
		if !widen {
			// the decoder model sees every value in order (it tracks the minimum that must be signalled)
			for _, s := range kv {
				if s[0] == 1 {
					h.Dec.SetLimit(s[1])
					h.xdec.SetAllowedMaxDynamicTableSize(s[1])
				}
			}
		}
		h.mu.Unlock()
	}
	apply(true)
	_ = h.Write(rawframe.Append(nil, rawframe.Settings, 0, 0, rawframe.SettingsPayload(kv)))
	apply(false)
}

// Replenish returns connection-level credit for everything received so far (a
// conforming receiver does; DATA of streams that were reset counts too). It
// reports whether a WINDOW_UPDATE was sent.
func (h *H) Replenish() bool {
	h.mu.Lock()
	n := int64(65535) - h.ConnWin
	h.mu.Unlock()
	if n <= 0 {
		return false
	}
	h.SendWindowUpdate(0, uint32(n))
	return true
}

// OpenStream registers the flow-control ledger for a stream we open.
func (h *H) OpenStream(id uint32) {
	h.mu.Lock()
	if _, ok := h.StreamWin[id]; !ok {
		h.StreamWin[id] = h.InitWin
	}
	h.mu.Unlock()
}

func (h *H) SendWindowUpdate(id uint32, n uint32) { h.SendWindowUpdateFlags(id, n, 0) }

// SendWindowUpdateFlags is SendWindowUpdate with (undefined) flag bits set.
func (h *H) SendWindowUpdateFlags(id uint32, n uint32, flags byte) {
	// the ledger is credited before the frame is written: the server may answer with DATA before this
	// goroutine runs again, and the reader must then already see the grant (a grant booked after the write
	// showed as a non-reproducible "exceeds the window" under load, DESIGN section 10)
	h.mu.Lock()
	if id == 0 {
		h.ConnWin += int64(n)
	} else if _, ok := h.StreamWin[id]; ok {
		h.StreamWin[id] += int64(n)
	}
	h.mu.Unlock()
	_ = h.Write(rawframe.Append(nil, rawframe.WindowUpdate, flags, id, rawframe.U32(n)))
}

// ---- reading ------------------------------------------------------------

func (h *H) add(e Event) {
	h.mu.Lock()
	e.Seq = len(h.Events)
	h.Events = append(h.Events, e)
	h.mu.Unlock()
}

func (h *H) readLoop() {
	defer close(h.readerDone)
	defer h.readerGone.Store(true)
	fr := xh2.NewFramer(io.Discard, h.C)
	fr.AllowIllegalReads = true
	fr.SetMaxReadFrameSize(1<<24 - 1)
	var block []byte
	var blockStream uint32
	var blockEnd bool
	var blockFrames, blockMax int
	flush := func() {
		e := Event{Kind: "headers", Stream: blockStream, EndStream: blockEnd, Frames: blockFrames, Length: blockMax}
		h.mu.Lock()
		e.Limit = h.MaxFrame
		fields, err := h.Dec.DecodeBlock(block)
		e.SizeUpd = append([]uint32(nil), h.Dec.SawUpdates...)
		h.mu.Unlock()
		e.Fields = fields
		if err != nil {
			e.HdrErr = err.Error()
		} else if xf, xerr := xnetDecode(h.xdec, block); xerr != nil {
			e.HdrErr = "x/net: " + xerr.Error()
		} else if len(xf) != len(fields) {
			e.HdrErr = "x/net and the reference decoder disagree"
		}
		block = nil
		h.add(e)
	}
	for {
		f, err := fr.ReadFrame()
		if err != nil {
			if err == io.EOF || strings.Contains(err.Error(), "closed pipe") {
				h.add(Event{Kind: "eof"})
			} else {
				h.add(Event{Kind: "error", Err: err.Error()})
			}
			return
		}
		fh := f.Header()
		switch g := f.(type) {
		case *xh2.DataFrame:
			d := append([]byte(nil), g.Data()...)
			h.mu.Lock()
			n := int64(fh.Length)
			h.ConnWin -= n
			if _, ok := h.StreamWin[fh.StreamID]; ok {
				h.StreamWin[fh.StreamID] -= n
				if h.StreamWin[fh.StreamID] < 0 && h.FCViol == "" {
					h.FCViol = fmt.Sprintf("stream %d: DATA of %d octets exceeds the stream window by %d", fh.StreamID, n, -h.StreamWin[fh.StreamID])
				}
			}
			if h.ConnWin < 0 && h.FCViol == "" {
				h.FCViol = fmt.Sprintf("stream %d: DATA of %d octets exceeds the connection window by %d", fh.StreamID, n, -h.ConnWin)
			}
			if n > h.MaxFrame && h.FCViol == "" {
				h.FCViol = fmt.Sprintf("stream %d: DATA frame of %d octets exceeds our MAX_FRAME_SIZE %d", fh.StreamID, n, h.MaxFrame)
			}
			h.RecvData[fh.StreamID] += int64(len(d))
			h.mu.Unlock()
			h.add(Event{Kind: "data", Stream: fh.StreamID, EndStream: g.StreamEnded(), Data: d, Length: int(fh.Length)})
		case *xh2.HeadersFrame:
			block = append(block[:0], g.HeaderBlockFragment()...)
			blockStream, blockEnd, blockFrames, blockMax = fh.StreamID, g.StreamEnded(), 1, int(fh.Length)
			if g.HeadersEnded() {
				flush()
			}
		case *xh2.ContinuationFrame:
			block = append(block, g.HeaderBlockFragment()...)
			blockFrames++
			if int(fh.Length) > blockMax {
				blockMax = int(fh.Length)
			}
			if g.HeadersEnded() {
				flush()
			}
		case *xh2.RSTStreamFrame:
			h.add(Event{Kind: "rst", Stream: fh.StreamID, Code: uint32(g.ErrCode)})
		case *xh2.GoAwayFrame:
			h.add(Event{Kind: "goaway", Last: g.LastStreamID, Code: uint32(g.ErrCode), Debug: string(g.DebugData())})
		case *xh2.SettingsFrame:
			if g.IsAck() {
				h.add(Event{Kind: "settingsack"})
			} else {
				var kv [][2]uint32
				_ = g.ForeachSetting(func(s xh2.Setting) error { kv = append(kv, [2]uint32{uint32(s.ID), s.Val}); return nil })
				h.add(Event{Kind: "settings", Settings: kv})
			}
		case *xh2.PingFrame:
			k := "ping"
			if g.IsAck() {
				k = "pingack"
			}
			h.add(Event{Kind: k, Ping: g.Data})
		case *xh2.WindowUpdateFrame:
			h.add(Event{Kind: "window", Stream: fh.StreamID, Incr: g.Increment})
		case *xh2.PushPromiseFrame:
			h.add(Event{Kind: "push", Stream: fh.StreamID})
		case *xh2.PriorityFrame:
			h.add(Event{Kind: "priority", Stream: fh.StreamID})
		default:
			h.add(Event{Kind: "unknown", Stream: fh.StreamID, Code: uint32(fh.Type)})
		}
	}
}

// xnetDecode feeds leading size updates one by one (x/net refuses a second one
// at the start of a block although RFC 7541 4.2 allows several).
func xnetDecode(d *hpack.Decoder, block []byte) ([]hpack.HeaderField, error) {
	for len(block) > 0 && block[0]&0xe0 == 0x20 {
		_, rest, err := refhpack.ReadInt(block, 5)
		if err != nil {
			break
		}
		if _, err := d.DecodeFull(block[:len(block)-len(rest)]); err != nil {
			return nil, err
		}
		block = rest
	}
	return d.DecodeFull(block)
}

func (h *H) EventsCopy() []Event {
	h.mu.Lock()
	defer h.mu.Unlock()
	return append([]Event(nil), h.Events...)
}

func (h *H) NumEvents() int { h.mu.Lock(); defer h.mu.Unlock(); return len(h.Events) }

func (h *H) FlowViolation() string { h.mu.Lock(); defer h.mu.Unlock(); return h.FCViol }

func (h *H) Windows(id uint32) (stream, conn int64) {
	h.mu.Lock()
	defer h.mu.Unlock()
	return h.StreamWin[id], h.ConnWin
}

// ---- quiescence -----------------------------------------------------------

type snap struct {
	ev                      [17]int64
	busy                    int32
	entered, exited, parked int
	nev                     int
	unreadS, unreadC        int
	parkedS, parkedC        bool
	readerGone              bool
	served                  bool // ServeConn has returned
}

func (h *H) snapshot() snap {
	var s snap
	for i := range s.ev {
		s.ev[i] = h.Stats.Ev[i].Load()
	}
	s.busy = h.Stats.Busy.Load()
	s.entered, s.exited, s.parked = h.HandlerCounts()
	s.nev = h.NumEvents()
	s.unreadS, s.parkedS = h.S.Unread(), h.S.ReaderParked()
	s.unreadC, s.parkedC = h.C.Unread(), h.C.ReaderParked()
	s.readerGone = h.readerGone.Load()
	select {
	case <-h.ServeDone:
		s.served = true
	default:
	}
	return s
}

func (s snap) quiet() bool {
	if s.served {
		// the connection handler is gone and has closed the connection: our own
		// reader has to reach the end of what was written (or be held on purpose)
		return s.readerGone || (s.unreadC == 0 && s.parkedC)
	}
	e := s.ev
	if e[http2.VerifEvReadLoopExit] > 0 {
		// the read loop has ended, so ServeConn is on its way out (bounded by its
		// own drain timeout): the connection is only quiet once it has returned
		return false
	}
	readDone := e[http2.VerifEvReadLoopExit] > 0
	streamDone := e[http2.VerifEvStreamLoopExit] > 0
	writeDone := e[http2.VerifEvWriteLoopExit] > 0
	if !(readDone || (s.unreadS == 0 && s.parkedS)) {
		return false
	}
	if !streamDone {
		if s.busy != 0 || e[http2.VerifEvForwarded] != e[http2.VerifEvTaken] || e[http2.VerifEvHandlerReport] != e[http2.VerifEvHandlerTaken] {
			return false
		}
	}
	if int(e[http2.VerifEvHandlerStart]) != s.entered || int(e[http2.VerifEvHandlerReport]) != s.exited || s.entered-s.exited != s.parked {
		return false
	}
	if !writeDone && e[http2.VerifEvQueued] != e[http2.VerifEvWritten]+e[http2.VerifEvDropped] {
		return false
	}
	if !(s.readerGone || (s.unreadC == 0 && s.parkedC)) {
		return false
	}
	return true
}

func (s snap) String() string {
	e := s.ev
	return fmt.Sprintf("fwd=%d taken=%d busy=%d hstart=%d hreport=%d htaken=%d entered=%d exited=%d parked=%d queued=%d written=%d dropped=%d exits(r/s/w)=%d/%d/%d serve=%d unreadS=%d parkedS=%v unreadC=%d parkedC=%v readerGone=%v events=%d",
		e[http2.VerifEvForwarded], e[http2.VerifEvTaken], s.busy, e[http2.VerifEvHandlerStart], e[http2.VerifEvHandlerReport], e[http2.VerifEvHandlerTaken],
		s.entered, s.exited, s.parked, e[http2.VerifEvQueued], e[http2.VerifEvWritten], e[http2.VerifEvDropped],
		e[http2.VerifEvReadLoopExit], e[http2.VerifEvStreamLoopExit], e[http2.VerifEvWriteLoopExit], e[http2.VerifEvServeReturn],
		s.unreadS, s.parkedS, s.unreadC, s.parkedC, s.readerGone, s.nev)
}

// Quiesce waits until nothing more can happen without new input from the peer
// (or a gate release). It returns false, with a description, when the state
// does not settle within the timeout.
func (h *H) Quiesce() (bool, string) {
	deadline := time.Now().Add(h.Cfg.QuiesceTimeout)
	var last snap
	have := false
	for i := 0; ; i++ {
		s := h.snapshot()
		if s.quiet() {
			if have && s == last {
				return true, ""
			}
			last, have = s, true
		} else {
			have = false
		}
		if i < 200 {
			runtime.Gosched()
		} else {
			time.Sleep(20 * time.Microsecond)
			if i%256 == 0 && time.Now().After(deadline) {
				return false, WithDeadlockEvidence(s.String())
			}
		}
	}
}

// MutexDeadlock looks for evidence of a deadlock inside the library when quiescence could not be reached
// within its (long) timeout. Two goroutine dumps are taken two seconds apart; there is evidence when
//   - the same goroutine (by id) with a library frame is blocked on a mutex in both, and
//   - in neither dump is any goroutine with a library frame running, runnable or in a system call (a lock
//     holder that merely waits for the CPU on a busy machine shows up as runnable), and
//   - no goroutine is inside a dial (Dialer.Dial / tryDial / Conn.Handshake): the client dials under its lock,
//     and a dial makes progress through the harness's TLS peer, which this dump does not attribute to the library.
// With the peer idle nothing releases such a lock any more. It returns the blocked goroutine's stack, or "".
func MutexDeadlock() string {
	type view struct {
		blocked map[string]string
		live    bool
	}
	look := func() view {
		v := view{blocked: map[string]string{}}
		for _, g := range LibraryGoroutines() {
			head := g
			if i := strings.IndexByte(g, '\n'); i >= 0 {
				head = g[:i]
			}
			body := g
			if i := strings.Index(body, "\ncreated by "); i >= 0 {
				body = body[:i]
			}
			if !strings.Contains(body, "github.com/dgrr/http2.") {
				continue
			}
			if strings.Contains(body, "http2.(*Dialer).Dial") || strings.Contains(body, "http2.(*Dialer).tryDial") || strings.Contains(body, "http2.(*Conn).Handshake") {
				v.live = true
			}
			state := ""
			if i := strings.Index(head, " ["); i >= 0 {
				state = head[i+2:]
			}
			if strings.HasPrefix(state, "running") || strings.HasPrefix(state, "runnable") || strings.HasPrefix(state, "syscall") || strings.HasPrefix(state, "sleep") {
				v.live = true
			}
			if (strings.HasPrefix(state, "sync.Mutex.Lock") || strings.HasPrefix(state, "sync.RWMutex") || strings.HasPrefix(state, "semacquire")) && lockTakenByLibrary(body) {
				id := head
				if i := strings.Index(head, " ["); i >= 0 {
					id = head[:i]
				}
				v.blocked[id] = g
			}
		}
		return v
	}
	a := look()
	if len(a.blocked) == 0 || a.live {
		return ""
	}
	time.Sleep(2 * time.Second)
	b := look()
	if b.live {
		return ""
	}
	for id, g := range b.blocked {
		if _, ok := a.blocked[id]; ok {
			return g
		}
	}
	return ""
}

// AnyLive reports whether one of the goroutine stacks is running, runnable or in a system call: such a
// goroutine is making progress (or waiting for the CPU on a busy machine), so the code it belongs to is
// slow, not stuck.
func AnyLive(gs []string) bool {
	for _, g := range gs {
		head := g
		if i := strings.IndexByte(g, '\n'); i >= 0 {
			head = g[:i]
		}
		if i := strings.Index(head, " ["); i >= 0 {
			st := head[i+2:]
			if strings.HasPrefix(st, "running") || strings.HasPrefix(st, "runnable") || strings.HasPrefix(st, "syscall") {
				return true
			}
		}
	}
	return false
}

// lockTakenByLibrary: the frame that asked for the lock (the first one below the runtime / sync frames) is library
// code. A library goroutine waiting for a lock of the harness (the in-memory connection's, say, under a flood of
// tiny frames) is contention in the harness, not a lock of the library that nobody will release.
func lockTakenByLibrary(stack string) bool {
	lines := strings.Split(stack, "\n")
	for _, l := range lines[1:] {
		if strings.HasPrefix(l, "\t") || l == "" {
			continue
		}
		if strings.HasPrefix(l, "internal/sync.") || strings.HasPrefix(l, "sync.") || strings.HasPrefix(l, "runtime.") || strings.HasPrefix(l, "internal/runtime") {
			continue
		}
		return strings.HasPrefix(l, "github.com/dgrr/http2.")
	}
	return false
}

// DeadlockMark prefixes the detail string of a failed quiescence when MutexDeadlock found evidence;
// the lanes' runner turns an inconclusive outcome carrying it into a violation.
const DeadlockMark = "LIBRARY-DEADLOCK"

func WithDeadlockEvidence(detail string) string {
	if g := MutexDeadlock(); g != "" {
		lines := strings.Split(g, "\n")
		if len(lines) > 24 {
			lines = lines[:24]
		}
		return DeadlockMark + ": quiescence was not reached and a goroutine of the library has been blocked on a mutex throughout:\n" + strings.Join(lines, "\n") + "\n(" + detail + ")"
	}
	return detail
}

// WaitServeDone waits for ServeConn to return.
func (h *H) WaitServeDone(d time.Duration) bool {
	select {
	case <-h.ServeDone:
		return true
	case <-time.After(d):
		return false
	}
}

// ConnGoroutines returns the stacks of goroutines that belong to this
// connection's serverConn (matched by the object's address in the dump).
func (h *H) ConnGoroutines() []string {
	p := h.Stats.Ptr.Load()
	if p == 0 {
		return nil
	}
	needle := fmt.Sprintf("(0x%x", p)
	var out []string
	for _, g := range LibraryGoroutines() {
		if strings.Contains(g, needle) {
			out = append(out, g)
		}
	}
	return out
}

// Goroutines returns the stacks of goroutines that are inside the library.
func LibraryGoroutines() []string {
	buf := make([]byte, 1<<20)
	n := runtime.Stack(buf, true)
	var out []string
	for _, g := range bytes.Split(buf[:n], []byte("\n\n")) {
		if bytes.Contains(g, []byte("github.com/dgrr/http2.")) {
			out = append(out, string(g))
		}
	}
	return out
}

// StatsString describes the current quiescence snapshot (diagnostics).
func (h *H) StatsString() string { return h.snapshot().String() }
