package peer

import (
	"fmt"
	"strconv"

	"verif/harness/rawframe"
	"verif/harness/refhpack"
)

// FieldSpec is a header field plus how to represent it on the wire.
type FieldSpec struct {
	F refhpack.Field `json:"f"`
	R refhpack.Rep   `json:"r"`
}

// Req describes one request the peer sends.
type Req struct {
	Tag       string         `json:"tag"`
	Method    string         `json:"method"`
	Path      string         `json:"path"`            // full :path; must start with "/"+Tag
	Auth      string         `json:"auth"`            // :authority ("" = omitted)
	Scheme    string         `json:"scheme"`          //
	PseudoRep []refhpack.Rep `json:"prep,omitempty"`  // representation of the 4 pseudo headers
	Order     []int          `json:"order,omitempty"` // permutation of the pseudo headers (0 method 1 scheme 2 path 3 authority)
	Fields    []FieldSpec    `json:"fields,omitempty"`
	BodyLen   int            `json:"blen,omitempty"`
	DeclareCL bool           `json:"cl,omitempty"` // send content-length
	Trailers  []FieldSpec    `json:"trailers,omitempty"`

	SizeUpd  []int  `json:"sizeupd,omitempty"` // dynamic table size updates in front of the block
	Splits   []int  `json:"splits,omitempty"`  // cut offsets of the header block (mod len), each starts a CONTINUATION
	PadHdr   int    `json:"padhdr,omitempty"`  // >0: HEADERS padded with PadHdr-1 octets
	Prio     bool   `json:"prio,omitempty"`
	Dep      uint32 `json:"dep,omitempty"`
	Excl     bool   `json:"excl,omitempty"`
	Weight   byte   `json:"weight,omitempty"`
	Chunks   []int  `json:"chunks,omitempty"`  // DATA chunk sizes (cycled); 0 = an empty DATA frame
	PadData  []int  `json:"paddata,omitempty"` // per DATA frame: >0 padded with n-1 octets (cycled)
	TrSplits []int  `json:"trsplits,omitempty"`
	EndOnHdr bool   `json:"-"`
}

// HeaderList is the request's field list in wire order.
func (r Req) HeaderList() []FieldSpec {
	ps := []refhpack.Field{{Name: ":method", Value: r.Method}, {Name: ":scheme", Value: r.Scheme}, {Name: ":path", Value: r.Path}, {Name: ":authority", Value: r.Auth}}
	order := r.Order
	if len(order) != 4 {
		order = []int{0, 1, 2, 3}
	}
	var out []FieldSpec
	for _, i := range order {
		if i == 3 && r.Auth == "" {
			continue
		}
		rep := refhpack.Rep{Kind: 0, Alt: 2, NameIdx: true}
		if i < len(r.PseudoRep) {
			rep = r.PseudoRep[i]
		}
		out = append(out, FieldSpec{F: ps[i], R: rep})
	}
	out = append(out, r.Fields...)
	if r.DeclareCL {
		out = append(out, FieldSpec{F: refhpack.Field{Name: "content-length", Value: strconv.Itoa(r.BodyLen)}, R: refhpack.Rep{Kind: 2, NameIdx: true}})
	}
	return out
}

// EncodeBlock encodes fields with the connection's encoder model, in call order.
func (h *H) EncodeBlock(sizeUpd []int, fields []FieldSpec) []byte {
	var b []byte
	for _, u := range sizeUpd {
		// the server advertises the default table size (4096) and never changes it
		b = h.Enc.SizeUpdate(b, uint32(u)%4097)
	}
	for _, f := range fields {
		b, _ = h.Enc.Field(b, f.F, f.R)
	}
	return b
}

// SplitBlock cuts a header block into HEADERS + CONTINUATION frames.
func SplitBlock(id uint32, block []byte, splits []int, endStream bool, padHdr int, prio bool, dep uint32, excl bool, weight byte) [][]byte {
	var cuts []int
	if len(block) > 0 {
		seen := map[int]bool{}
		for _, s := range splits {
			c := s % (len(block) + 1)
			if c < 0 {
				c = -c
			}
			if !seen[c] {
				seen[c] = true
				cuts = append(cuts, c)
			}
		}
	}
	// sort
	for i := range cuts {
		for j := i + 1; j < len(cuts); j++ {
			if cuts[j] < cuts[i] {
				cuts[i], cuts[j] = cuts[j], cuts[i]
			}
		}
	}
	var parts [][]byte
	prev := 0
	for _, c := range cuts {
		parts = append(parts, block[prev:c])
		prev = c
	}
	parts = append(parts, block[prev:])
	var frames [][]byte
	for i, p := range parts {
		last := i == len(parts)-1
		if i == 0 {
			var fl byte
			if endStream {
				fl |= rawframe.FlagEndStream
			}
			if last {
				fl |= rawframe.FlagEndHeaders
			}
			payload := append([]byte{}, p...)
			if prio {
				fl |= rawframe.FlagPriority
				payload = append(rawframe.PrioritySection(dep, excl, weight), payload...)
			}
			if padHdr > 0 {
				fl |= rawframe.FlagPadded
				payload = rawframe.Padded(payload, padHdr-1, 0)
			}
			frames = append(frames, rawframe.Append(nil, rawframe.Headers, fl, id, payload))
		} else {
			var fl byte
			if last {
				fl |= rawframe.FlagEndHeaders
			}
			frames = append(frames, rawframe.Append(nil, rawframe.Continuation, fl, id, p))
		}
	}
	return frames
}

// DataFrames cuts a body into DATA frames; the last carries END_STREAM when end.
func DataFrames(id uint32, body []byte, chunks, pads []int, end bool) [][]byte {
	var frames [][]byte
	i := 0
	emit := func(p []byte, es bool) {
		var fl byte
		if es {
			fl |= rawframe.FlagEndStream
		}
		payload := p
		if len(pads) > 0 {
			if pd := pads[i%len(pads)]; pd > 0 {
				fl |= rawframe.FlagPadded
				payload = rawframe.Padded(p, pd-1, 0)
			}
		}
		frames = append(frames, rawframe.Append(nil, rawframe.Data, fl, id, payload))
		i++
	}
	rest := body
	for len(rest) > 0 {
		n := 16384 - 256
		if len(frames) >= 20000 {
			// enough tiny frames: the remainder goes out in full-size ones, so
			// the body is always complete
			chunks = nil
		}
		if len(chunks) > 0 {
			n = chunks[i%len(chunks)]
		}
		if n > 16384-256 {
			n = 16384 - 256
		}
		if n <= 0 {
			emit(nil, false)
			// never loop on empty chunks only
			if len(chunks) > 0 {
				allZero := true
				for _, c := range chunks {
					if c > 0 {
						allZero = false
					}
				}
				if allZero {
					chunks = nil
				}
			}
			continue
		}
		if n > len(rest) {
			n = len(rest)
		}
		emit(rest[:n], end && n == len(rest))
		rest = rest[n:]
	}
	if len(body) == 0 && end {
		emit(nil, true)
	}
	return frames
}

// Got is a response as assembled from the events of one stream.
type Got struct {
	Stream     uint32
	Status     string
	Fields     []refhpack.Field
	Trailers   []refhpack.Field
	Body       []byte
	HdrBlocks  int
	EndStream  int
	AfterEnd   int
	Rst        bool
	RstCode    uint32
	HdrErr     string
	DataBefore bool // DATA seen before HEADERS
	MaxHdrLen  int
	Complete   bool
}

// Assemble groups events per stream.
func Assemble(evs []Event) map[uint32]*Got {
	out := map[uint32]*Got{}
	get := func(id uint32) *Got {
		g := out[id]
		if g == nil {
			g = &Got{Stream: id}
			out[id] = g
		}
		return g
	}
	for _, e := range evs {
		switch e.Kind {
		case "headers":
			g := get(e.Stream)
			if g.EndStream > 0 || g.Rst {
				g.AfterEnd++
			}
			g.HdrBlocks++
			if e.HdrErr != "" {
				g.HdrErr = e.HdrErr
			}
			if e.Length > g.MaxHdrLen {
				g.MaxHdrLen = e.Length
			}
			if g.HdrBlocks == 1 {
				for _, f := range e.Fields {
					if f.Name == ":status" {
						if g.Status != "" {
							g.HdrErr = "duplicate :status"
						}
						g.Status = f.Value
					} else {
						g.Fields = append(g.Fields, f)
					}
				}
			} else {
				g.Trailers = append(g.Trailers, e.Fields...)
			}
			if e.EndStream {
				g.EndStream++
			}
		case "data":
			g := get(e.Stream)
			if g.EndStream > 0 || g.Rst {
				g.AfterEnd++
			}
			if g.HdrBlocks == 0 {
				g.DataBefore = true
			}
			g.Body = append(g.Body, e.Data...)
			if e.EndStream {
				g.EndStream++
			}
		case "rst":
			g := get(e.Stream)
			if g.Rst {
				g.AfterEnd++
			}
			g.Rst = true
			g.RstCode = e.Code
		}
	}
	for _, g := range out {
		g.Complete = g.EndStream == 1 && g.HdrBlocks >= 1 && !g.Rst && g.AfterEnd == 0
	}
	return out
}

func (g *Got) String() string {
	if g == nil {
		return "<nothing>"
	}
	return fmt.Sprintf("{status=%q fields=%d body=%d hdrblocks=%d endstream=%d afterEnd=%d rst=%v(%d) hdrErr=%q}", g.Status, len(g.Fields), len(g.Body), g.HdrBlocks, g.EndStream, g.AfterEnd, g.Rst, g.RstCode, g.HdrErr)
}

// GoAways returns the GOAWAY events.
func GoAways(evs []Event) []Event {
	var out []Event
	for _, e := range evs {
		if e.Kind == "goaway" {
			out = append(out, e)
		}
	}
	return out
}

func HasEOF(evs []Event) bool {
	for _, e := range evs {
		if e.Kind == "eof" || e.Kind == "error" {
			return true
		}
	}
	return false
}

func CodeName(c uint32) string {
	names := []string{"NO_ERROR", "PROTOCOL_ERROR", "INTERNAL_ERROR", "FLOW_CONTROL_ERROR", "SETTINGS_TIMEOUT", "STREAM_CLOSED", "FRAME_SIZE_ERROR", "REFUSED_STREAM", "CANCEL", "COMPRESSION_ERROR", "CONNECT_ERROR", "ENHANCE_YOUR_CALM", "INADEQUATE_SECURITY", "HTTP_1_1_REQUIRED"}
	if int(c) < len(names) {
		return names[c]
	}
	return fmt.Sprintf("code(%d)", c)
}
