// Package memconn is a buffered in-memory duplex net.Conn with fault
// injection and "is the reader parked on an empty queue" observation.
// net.Pipe is synchronous, which deadlocks single-threaded scripted peers.
package memconn

import (
	"errors"
	"io"
	"net"
	"os"
	"sync"
	"time"
)

type half struct {
	mu   sync.Mutex
	cond *sync.Cond
	buf  []byte

	wclosed bool  // writer closed: reader drains then sees rerr (EOF)
	rclosed bool  // reader closed: writes fail
	rerr    error // error the reader sees once drained after wclosed

	limit int // >0: writer blocks while len(buf) >= limit

	rdead, wdead time.Time
	rtimer       *time.Timer
	wtimer       *time.Timer

	readersWaiting int
	writersWaiting int

	written  int64 // bytes accepted from the writer
	consumed int64 // bytes handed to the reader

	holdReads bool // reads block even when data is queued (a peer that stopped reading)

	// voidAfterRClose: once the reader's end has been closed, writes are accepted and thrown away instead of
	// failing, the way a TCP socket accepts a write after the peer's FIN (the reset comes later, if ever)
	voidAfterRClose bool

	failWriteAt int64 // >=0: writes fail once written reaches this many bytes
	cutReadAt   int64 // >=0: reader sees EOF after this many bytes (rest discarded)
}

func newHalf() *half {
	h := &half{failWriteAt: -1, cutReadAt: -1, rerr: io.EOF}
	h.cond = sync.NewCond(&h.mu)
	return h
}

type addr string

func (a addr) Network() string { return "mem" }
func (a addr) String() string  { return string(a) }

// Conn is one end of the duplex pipe.
type Conn struct {
	r, w   *half
	name   string
	closed bool
	cmu    sync.Mutex
}

// Pair returns the two ends of a fresh connection.
func Pair() (*Conn, *Conn) {
	ab, ba := newHalf(), newHalf()
	return &Conn{r: ba, w: ab, name: "a"}, &Conn{r: ab, w: ba, name: "b"}
}

var errTimeout = os.ErrDeadlineExceeded

func (c *Conn) Read(p []byte) (int, error) {
	h := c.r
	h.mu.Lock()
	defer h.mu.Unlock()
	for {
		if h.rclosed {
			return 0, io.ErrClosedPipe
		}
		if h.cutReadAt >= 0 && h.consumed >= h.cutReadAt {
			h.buf = h.buf[:0]
			return 0, h.rerr
		}
		if len(h.buf) > 0 && !h.holdReads {
			n := len(p)
			if n > len(h.buf) {
				n = len(h.buf)
			}
			if h.cutReadAt >= 0 && h.consumed+int64(n) > h.cutReadAt {
				n = int(h.cutReadAt - h.consumed)
			}
			copy(p, h.buf[:n])
			h.buf = h.buf[:copy(h.buf, h.buf[n:])]
			h.consumed += int64(n)
			h.cond.Broadcast()
			return n, nil
		}
		if h.wclosed && !(h.holdReads && len(h.buf) > 0) {
			return 0, h.rerr
		}
		if !h.rdead.IsZero() && !time.Now().Before(h.rdead) {
			return 0, errTimeout
		}
		if len(p) == 0 {
			return 0, nil
		}
		h.readersWaiting++
		h.cond.Wait()
		h.readersWaiting--
	}
}

func (c *Conn) Write(p []byte) (int, error) {
	h := c.w
	h.mu.Lock()
	defer h.mu.Unlock()
	total := 0
	for len(p) > 0 {
		if h.wclosed {
			return total, io.ErrClosedPipe
		}
		if h.rclosed && h.voidAfterRClose {
			h.written += int64(len(p))
			return total + len(p), nil
		}
		if h.rclosed {
			return total, errors.New("memconn: broken pipe")
		}
		if h.failWriteAt >= 0 && h.written >= h.failWriteAt {
			return total, errors.New("memconn: injected write failure")
		}
		if !h.wdead.IsZero() && !time.Now().Before(h.wdead) {
			return total, errTimeout
		}
		room := len(p)
		if h.limit > 0 {
			room = h.limit - len(h.buf)
			if room <= 0 {
				h.writersWaiting++
				h.cond.Wait()
				h.writersWaiting--
				continue
			}
			if room > len(p) {
				room = len(p)
			}
		}
		if h.failWriteAt >= 0 && h.written+int64(room) > h.failWriteAt {
			room = int(h.failWriteAt - h.written)
		}
		h.buf = append(h.buf, p[:room]...)
		h.written += int64(room)
		total += room
		p = p[room:]
		h.cond.Broadcast()
	}
	return total, nil
}

// Close closes both directions of this end.
func (c *Conn) Close() error {
	c.cmu.Lock()
	if c.closed {
		c.cmu.Unlock()
		return nil
	}
	c.closed = true
	c.cmu.Unlock()

	c.w.mu.Lock()
	c.w.wclosed = true
	c.w.cond.Broadcast()
	c.w.mu.Unlock()

	c.r.mu.Lock()
	c.r.rclosed = true
	c.r.buf = nil
	c.r.cond.Broadcast()
	c.r.mu.Unlock()
	return nil
}

// CloseWrite half-closes: the peer reads EOF after draining, we can still read.
func (c *Conn) CloseWrite() {
	c.w.mu.Lock()
	c.w.wclosed = true
	c.w.cond.Broadcast()
	c.w.mu.Unlock()
}

// Reset closes this end so the peer's reads fail with a reset-like error
// instead of EOF.
func (c *Conn) Reset() {
	c.w.mu.Lock()
	c.w.rerr = errors.New("memconn: connection reset by peer")
	c.w.mu.Unlock()
	_ = c.Close()
}

func (c *Conn) IsClosed() bool { c.cmu.Lock(); defer c.cmu.Unlock(); return c.closed }

func (c *Conn) LocalAddr() net.Addr  { return addr("mem-" + c.name) }
func (c *Conn) RemoteAddr() net.Addr { return addr("mem-peer-of-" + c.name) }

func (c *Conn) SetDeadline(t time.Time) error {
	_ = c.SetReadDeadline(t)
	return c.SetWriteDeadline(t)
}

func setDeadline(h *half, t time.Time, read bool) {
	h.mu.Lock()
	tp := &h.wtimer
	if read {
		h.rdead = t
		tp = &h.rtimer
	} else {
		h.wdead = t
	}
	if *tp != nil {
		(*tp).Stop()
		*tp = nil
	}
	if !t.IsZero() {
		d := time.Until(t)
		if d < 0 {
			d = 0
		}
		*tp = time.AfterFunc(d, func() {
			h.mu.Lock()
			h.cond.Broadcast()
			h.mu.Unlock()
		})
	}
	h.cond.Broadcast()
	h.mu.Unlock()
}

func (c *Conn) SetReadDeadline(t time.Time) error  { setDeadline(c.r, t, true); return nil }
func (c *Conn) SetWriteDeadline(t time.Time) error { setDeadline(c.w, t, false); return nil }

// ---- observation and fault injection -------------------------------------

// ReaderParked reports whether a Read on this end is blocked on an empty queue.
func (c *Conn) ReaderParked() bool {
	h := c.r
	h.mu.Lock()
	defer h.mu.Unlock()
	return h.readersWaiting > 0 && len(h.buf) == 0 && !h.wclosed && !h.rclosed
}

// Unread is the number of bytes written towards this end and not yet read.
func (c *Conn) Unread() int {
	h := c.r
	h.mu.Lock()
	defer h.mu.Unlock()
	return len(h.buf)
}

// WriterBlocked reports whether a Write on this end is blocked on a full queue.
func (c *Conn) WriterBlocked() bool {
	h := c.w
	h.mu.Lock()
	defer h.mu.Unlock()
	return h.writersWaiting > 0
}

// Written is how many bytes this end has written so far.
func (c *Conn) Written() int64 { h := c.w; h.mu.Lock(); defer h.mu.Unlock(); return h.written }

// Consumed is how many bytes this end has read so far.
func (c *Conn) Consumed() int64 { h := c.r; h.mu.Lock(); defer h.mu.Unlock(); return h.consumed }

// SetWriteLimit bounds the queue this end writes into (0 = unbounded): with a
// peer that does not read, writes block once limit bytes are queued.
func (c *Conn) SetWriteLimit(n int) {
	h := c.w
	h.mu.Lock()
	h.limit = n
	h.cond.Broadcast()
	h.mu.Unlock()
}

// WritesSurvivePeerClose makes writes from this end succeed (into the void) after the peer has closed its end,
// like a TCP socket after the peer's FIN; the default is an immediate "broken pipe".
func (c *Conn) WritesSurvivePeerClose(on bool) {
	h := c.w
	h.mu.Lock()
	h.voidAfterRClose = on
	h.mu.Unlock()
}

// FailWritesAfter makes writes from this end fail once n bytes in total have
// been written (n<0 disables).
func (c *Conn) FailWritesAfter(n int64) {
	h := c.w
	h.mu.Lock()
	h.failWriteAt = n
	h.cond.Broadcast()
	h.mu.Unlock()
}

// CutReadsAfter makes this end see EOF after n bytes in total (n<0 disables).
func (c *Conn) CutReadsAfter(n int64) {
	h := c.r
	h.mu.Lock()
	h.cutReadAt = n
	h.cond.Broadcast()
	h.mu.Unlock()
}

// HoldReads makes reads on this end block even when data is queued (the
// application behind this end has stopped reading), until released.
func (c *Conn) HoldReads(on bool) {
	h := c.r
	h.mu.Lock()
	h.holdReads = on
	h.cond.Broadcast()
	h.mu.Unlock()
}
