// Package refhpack is an independent RFC 7541 reference: Huffman coder, dynamic
// table model, an encoder that exposes every representation choice, and a
// strict decoder.
package refhpack

import (
	"errors"
	"strings"

	"golang.org/x/net/http2/hpack"
)

// Reference Huffman coder. The code table is recovered through x/net's public
// API only (so it is independent of the code under test) and self-checked.
var (
	HuffCode [256]uint32
	HuffLen  [256]uint8
	huffDec  map[uint64]byte // (len<<32 | code) -> symbol
)

func init() {
	huffDec = map[uint64]byte{}
	var kraft float64
	for b := 0; b < 256; b++ {
		s := string([]byte{byte(b)})
		n := hpack.HuffmanEncodeLength(strings.Repeat(s, 8)) // 8 copies = exactly n bytes = n bits per symbol
		enc := hpack.AppendHuffmanString(nil, s)
		var v uint64
		for _, x := range enc {
			v = v<<8 | uint64(x)
		}
		v >>= uint(len(enc)*8) - uint(n)
		HuffCode[b] = uint32(v)
		HuffLen[b] = uint8(n)
		k := uint64(n)<<32 | v
		if _, dup := huffDec[k]; dup {
			panic("reference huffman table: duplicate code")
		}
		huffDec[k] = byte(b)
		kraft += 1 / float64(uint64(1)<<n)
	}
	// Kraft: 256 symbols + the 30-bit EOS fill the code space exactly.
	kraft += 1 / float64(uint64(1)<<30)
	if kraft < 0.9999999999 || kraft > 1.0000000001 {
		panic("reference huffman table: Kraft sum is not 1")
	}
}

func HuffEncode(s []byte) []byte {
	var out []byte
	var acc uint64
	var nb uint
	for _, b := range s {
		acc = acc<<HuffLen[b] | uint64(HuffCode[b])
		nb += uint(HuffLen[b])
		for nb >= 8 {
			nb -= 8
			out = append(out, byte(acc>>nb))
		}
		acc &= (1 << nb) - 1
	}
	if nb > 0 {
		out = append(out, byte(acc<<(8-nb))|byte(1<<(8-nb)-1))
	}
	return out
}

var ErrHuffman = errors.New("invalid huffman data")

// HuffDecode: complete codes, then at most 7 padding bits, all ones; an EOS
// (30 ones) inside the string is an error.
func HuffDecode(src []byte) ([]byte, error) {
	out := []byte{}
	var code uint64
	var n uint
	for _, x := range src {
		for i := 7; i >= 0; i-- {
			code = code<<1 | uint64(x>>uint(i)&1)
			n++
			if sym, ok := huffDec[uint64(n)<<32|code]; ok {
				out = append(out, sym)
				code, n = 0, 0
			} else if n >= 30 {
				return nil, ErrHuffman // EOS or garbage
			}
		}
	}
	if n > 7 {
		return nil, ErrHuffman
	}
	if code != (1<<n)-1 {
		return nil, ErrHuffman
	}
	return out, nil
}
