package refhpack

import (
	"errors"
	"fmt"
)

// Field is one header field.
type Field struct {
	Name      string `json:"n"`
	Value     string `json:"v"`
	Sensitive bool   `json:"s,omitempty"`
}

func (f Field) Size() uint32 { return uint32(len(f.Name) + len(f.Value) + 32) }

// StaticTable is RFC 7541 Appendix A (index i is StaticTable[i-1]).
var StaticTable = []Field{
	{Name: ":authority"}, {Name: ":method", Value: "GET"}, {Name: ":method", Value: "POST"},
	{Name: ":path", Value: "/"}, {Name: ":path", Value: "/index.html"},
	{Name: ":scheme", Value: "http"}, {Name: ":scheme", Value: "https"},
	{Name: ":status", Value: "200"}, {Name: ":status", Value: "204"}, {Name: ":status", Value: "206"},
	{Name: ":status", Value: "304"}, {Name: ":status", Value: "400"}, {Name: ":status", Value: "404"},
	{Name: ":status", Value: "500"}, {Name: "accept-charset"}, {Name: "accept-encoding", Value: "gzip, deflate"},
	{Name: "accept-language"}, {Name: "accept-ranges"}, {Name: "accept"}, {Name: "access-control-allow-origin"},
	{Name: "age"}, {Name: "allow"}, {Name: "authorization"}, {Name: "cache-control"},
	{Name: "content-disposition"}, {Name: "content-encoding"}, {Name: "content-language"},
	{Name: "content-length"}, {Name: "content-location"}, {Name: "content-range"}, {Name: "content-type"},
	{Name: "cookie"}, {Name: "date"}, {Name: "etag"}, {Name: "expect"}, {Name: "expires"}, {Name: "from"},
	{Name: "host"}, {Name: "if-match"}, {Name: "if-modified-since"}, {Name: "if-none-match"},
	{Name: "if-range"}, {Name: "if-unmodified-since"}, {Name: "last-modified"}, {Name: "link"},
	{Name: "location"}, {Name: "max-forwards"}, {Name: "proxy-authenticate"}, {Name: "proxy-authorization"},
	{Name: "range"}, {Name: "referer"}, {Name: "refresh"}, {Name: "retry-after"}, {Name: "server"},
	{Name: "set-cookie"}, {Name: "strict-transport-security"}, {Name: "transfer-encoding"},
	{Name: "user-agent"}, {Name: "vary"}, {Name: "via"}, {Name: "www-authenticate"},
}

const StaticLen = 61

// Table is the RFC 7541 dynamic table (newest entry first).
type Table struct {
	Entries []Field
	Size    uint32
	Max     uint32
}

func NewTable(max uint32) *Table { return &Table{Max: max} }

func (t *Table) evict() {
	for t.Size > t.Max && len(t.Entries) > 0 {
		last := t.Entries[len(t.Entries)-1]
		t.Size -= last.Size()
		t.Entries = t.Entries[:len(t.Entries)-1]
	}
}

// Add inserts per RFC 7541 4.4 (an entry larger than Max empties the table).
func (t *Table) Add(f Field) {
	f.Sensitive = false
	if f.Size() > t.Max {
		t.Entries = nil
		t.Size = 0
		return
	}
	t.Size += f.Size()
	t.Entries = append([]Field{f}, t.Entries...)
	t.evict()
}

func (t *Table) SetMax(n uint32) { t.Max = n; t.evict() }

// Lookup resolves a 1-based HPACK index over static+dynamic.
func (t *Table) Lookup(idx uint64) (Field, bool) {
	if idx == 0 {
		return Field{}, false
	}
	if idx <= StaticLen {
		return StaticTable[idx-1], true
	}
	i := idx - StaticLen - 1
	if i >= uint64(len(t.Entries)) {
		return Field{}, false
	}
	return t.Entries[i], true
}

// Find returns the index of a full match (name+value) and of a name match (0 = none).
// pick selects among several candidates deterministically (pick%len).
func (t *Table) Find(f Field, pick int) (full, name uint64) {
	var fulls, names []uint64
	for i, s := range StaticTable {
		if s.Name == f.Name {
			names = append(names, uint64(i+1))
			if s.Value == f.Value {
				fulls = append(fulls, uint64(i+1))
			}
		}
	}
	for i, s := range t.Entries {
		if s.Name == f.Name {
			names = append(names, uint64(i+StaticLen+1))
			if s.Value == f.Value {
				fulls = append(fulls, uint64(i+StaticLen+1))
			}
		}
	}
	if pick < 0 {
		pick = -pick
	}
	if len(fulls) > 0 {
		full = fulls[pick%len(fulls)]
	}
	if len(names) > 0 {
		name = names[pick%len(names)]
	}
	return
}

func (t *Table) Clone() *Table {
	return &Table{Entries: append([]Field(nil), t.Entries...), Size: t.Size, Max: t.Max}
}

func (t *Table) Equal(entries [][2]string) bool {
	if len(entries) != len(t.Entries) {
		return false
	}
	for i, e := range t.Entries {
		if e.Name != entries[i][0] || e.Value != entries[i][1] {
			return false
		}
	}
	return true
}

// ---- encoder with explicit representation choices ---------------------------

// Rep says how one field is to be represented.
type Rep struct {
	Kind     int  `json:"k"`            // 0 indexed if a full match exists (else falls back to Alt), 1 literal+indexing, 2 literal without indexing, 3 never indexed
	Alt      int  `json:"a,omitempty"`  // fallback kind (1..3) for Kind 0 without a full match; 0 means 1
	NameIdx  bool `json:"ni,omitempty"` // use an indexed name when one exists
	HuffName bool `json:"hn,omitempty"`
	HuffVal  bool `json:"hv,omitempty"`
	Pick     int  `json:"p,omitempty"`  // which of several matching table entries to reference
	PadInt   int  `json:"pi,omitempty"` // extra 0x80 continuation bytes on multi-byte integers (legal, non-minimal)
}

func AppendInt(dst []byte, prefix uint8, first byte, v uint64, pad int) []byte {
	max := uint64(1)<<prefix - 1
	if v < max {
		return append(dst, first|byte(v))
	}
	dst = append(dst, first|byte(max))
	v -= max
	for v >= 128 {
		dst = append(dst, byte(v&127)|128)
		v >>= 7
	}
	if pad > 0 {
		dst = append(dst, byte(v)|128)
		for i := 1; i < pad; i++ {
			dst = append(dst, 128)
		}
		return append(dst, 0)
	}
	return append(dst, byte(v))
}

func AppendString(dst []byte, s string, huff bool, pad int) []byte {
	if huff {
		e := HuffEncode([]byte(s))
		dst = AppendInt(dst, 7, 0x80, uint64(len(e)), pad)
		return append(dst, e...)
	}
	dst = AppendInt(dst, 7, 0, uint64(len(s)), pad)
	return append(dst, s...)
}

// Encoder mirrors what a conforming peer's encoder does to its own table.
type Encoder struct {
	T *Table
}

func NewEncoder(max uint32) *Encoder { return &Encoder{T: NewTable(max)} }

// SizeUpdate appends a dynamic table size update and applies it.
func (e *Encoder) SizeUpdate(dst []byte, n uint32) []byte {
	e.T.SetMax(n)
	return AppendInt(dst, 5, 0x20, uint64(n), 0)
}

// Field appends one field. It returns the kind actually used.
func (e *Encoder) Field(dst []byte, f Field, r Rep) ([]byte, int) {
	full, name := e.T.Find(f, r.Pick)
	kind := r.Kind
	if f.Sensitive {
		kind = 3
	}
	if kind == 0 {
		if full != 0 {
			return AppendInt(dst, 7, 0x80, full, r.PadInt), 0
		}
		kind = r.Alt
		if kind < 1 || kind > 3 {
			kind = 1
		}
	}
	var first byte
	var prefix uint8
	switch kind {
	case 1:
		first, prefix = 0x40, 6
	case 2:
		first, prefix = 0x00, 4
	default:
		first, prefix = 0x10, 4
	}
	if r.NameIdx && name != 0 {
		dst = AppendInt(dst, prefix, first, name, r.PadInt)
	} else {
		dst = append(dst, first)
		dst = AppendString(dst, f.Name, r.HuffName, 0)
	}
	dst = AppendString(dst, f.Value, r.HuffVal, 0)
	if kind == 1 {
		e.T.Add(f)
	}
	return dst, kind
}

// ---- strict decoder -------------------------------------------------------

var (
	ErrTruncated  = errors.New("hpack: truncated")
	ErrIndex      = errors.New("hpack: invalid index")
	ErrSizeUpdate = errors.New("hpack: invalid dynamic table size update")
	ErrInteger    = errors.New("hpack: integer overflow")
)

// Decoder is a strict RFC 7541 decoder.
type Decoder struct {
	T *Table
	// Limit is the SETTINGS_HEADER_TABLE_SIZE the decoder's side has allowed.
	Limit uint32
	// MustShrinkTo >= 0 means the limit was lowered below the table's maximum
	// and the next block has to begin with a size update <= this value (4.2).
	MustShrinkTo int64
	// SawUpdates lists the size updates of the last block.
	SawUpdates []uint32
	// LowWater is the smallest table maximum in force since the owner last
	// reset it (used to tell whether a required shrink has already happened).
	LowWater uint32
}

func NewDecoder(limit uint32) *Decoder {
	return &Decoder{T: NewTable(limit), Limit: limit, MustShrinkTo: -1, LowWater: limit}
}

// SetLimit records a new SETTINGS_HEADER_TABLE_SIZE allowed to the encoder.
func (d *Decoder) SetLimit(n uint32) {
	d.Limit = n
	if n < d.T.Max {
		if d.MustShrinkTo < 0 || int64(n) < d.MustShrinkTo {
			d.MustShrinkTo = int64(n)
		}
	}
}

// ReadInt reads a prefix integer. ErrInteger marks encodings beyond what any
// implementation has to accept (more than 9 continuation octets or a value
// over 2^62): RFC 7541 5.1 lets a decoder reject those, so callers treat that
// outcome as "either".
func readIntLong(b []byte, prefix uint8) (uint64, []byte, error) {
	if len(b) == 0 {
		return 0, b, ErrTruncated
	}
	max := uint64(1)<<prefix - 1
	v := uint64(b[0]) & max
	b = b[1:]
	if v < max {
		return v, b, nil
	}
	var shift uint
	for {
		if len(b) == 0 {
			return 0, b, ErrTruncated
		}
		c := b[0]
		b = b[1:]
		g := uint64(c & 127)
		if g != 0 {
			if shift >= 62 || g<<shift>>shift != g {
				return 0, b, ErrInteger
			}
			v += g << shift
			if v >= 1<<62 {
				return 0, b, ErrInteger
			}
		}
		if shift < 1000 {
			shift += 7
		}
		if c&128 == 0 {
			return v, b, nil
		}
	}
}

// LongInts, when set, makes ReadInt accept encodings of any octet length as long as the value they spell is below
// 2^62 (over-long, zero-padded encodings: RFC 7541 5.1 lets an implementation refuse them, it does not make them
// mean something else). Used by C03 to tell "refused for its length" from "would have to be refused for its value".
var LongInts bool

func ReadInt(b []byte, prefix uint8) (uint64, []byte, error) {
	if LongInts {
		return readIntLong(b, prefix)
	}
	if len(b) == 0 {
		return 0, b, ErrTruncated
	}
	max := uint64(1)<<prefix - 1
	v := uint64(b[0]) & max
	b = b[1:]
	if v < max {
		return v, b, nil
	}
	var shift uint
	for n := 0; ; n++ {
		if len(b) == 0 {
			return 0, b, ErrTruncated
		}
		c := b[0]
		b = b[1:]
		if n >= 9 {
			return 0, b, ErrInteger
		}
		v += uint64(c&127) << shift
		if v >= 1<<62 {
			return 0, b, ErrInteger
		}
		shift += 7
		if c&128 == 0 {
			return v, b, nil
		}
	}
}

func readString(b []byte) (string, []byte, error) {
	if len(b) == 0 {
		return "", b, ErrTruncated
	}
	huff := b[0]&0x80 != 0
	n, b, err := ReadInt(b, 7)
	if err != nil {
		return "", b, err
	}
	if n > uint64(len(b)) {
		return "", b, ErrTruncated
	}
	raw := b[:n]
	b = b[n:]
	if huff {
		out, err := HuffDecode(raw)
		if err != nil {
			return "", b, err
		}
		return string(out), b, nil
	}
	return string(raw), b, nil
}

// DecodeBlock decodes one complete header block.
func (d *Decoder) DecodeBlock(b []byte) ([]Field, error) {
	var out []Field
	d.SawUpdates = nil
	fields := 0
	for len(b) > 0 {
		c := b[0]
		switch {
		case c&0x80 != 0:
			idx, rest, err := ReadInt(b, 7)
			if err != nil {
				return out, err
			}
			b = rest
			f, ok := d.T.Lookup(idx)
			if !ok {
				return out, fmt.Errorf("%w: %d", ErrIndex, idx)
			}
			out = append(out, f)
			fields++
		case c&0xc0 == 0x40, c&0xf0 == 0x00, c&0xf0 == 0x10:
			var prefix uint8 = 4
			if c&0xc0 == 0x40 {
				prefix = 6
			}
			idx, rest, err := ReadInt(b, prefix)
			if err != nil {
				return out, err
			}
			b = rest
			var f Field
			if idx != 0 {
				nf, ok := d.T.Lookup(idx)
				if !ok {
					return out, fmt.Errorf("%w: %d", ErrIndex, idx)
				}
				f.Name = nf.Name
			} else {
				f.Name, b, err = readString(b)
				if err != nil {
					return out, err
				}
			}
			f.Value, b, err = readString(b)
			if err != nil {
				return out, err
			}
			if c&0xc0 == 0x40 {
				d.T.Add(f)
			}
			f.Sensitive = c&0xf0 == 0x10
			out = append(out, f)
			fields++
		default: // 001x xxxx
			n, rest, err := ReadInt(b, 5)
			if err != nil {
				return out, err
			}
			b = rest
			if fields > 0 {
				return out, fmt.Errorf("%w: after a field", ErrSizeUpdate)
			}
			if n > uint64(d.Limit) {
				return out, fmt.Errorf("%w: %d > limit %d", ErrSizeUpdate, n, d.Limit)
			}
			d.T.SetMax(uint32(n))
			if uint32(n) < d.LowWater {
				d.LowWater = uint32(n)
			}
			d.SawUpdates = append(d.SawUpdates, uint32(n))
			if d.MustShrinkTo >= 0 && int64(n) <= d.MustShrinkTo {
				d.MustShrinkTo = -1
			}
		}
		if fields > 0 && d.MustShrinkTo >= 0 {
			return out, fmt.Errorf("%w: limit was lowered to %d but the block does not start with a size update", ErrSizeUpdate, d.MustShrinkTo)
		}
	}
	return out, nil
}
