// Package ev collects what a check run actually covered and writes the
// evidence (part) file, replay files and VIOLATION / KNOWN-FINDING lines.
package ev

import (
	"encoding/binary"
	"encoding/json"
	"fmt"
	"hash/fnv"
	"os"
	"path/filepath"
	"sort"
	"strconv"
	"strings"
	"sync"
	"time"
)

// Root is /verif unless VERIF_ROOT says otherwise.
func Root() string {
	if r := os.Getenv("VERIF_ROOT"); r != "" {
		return r
	}
	return "/verif"
}

// OutRoot is where replays are written: Root() unless VERIF_OUT says otherwise
// (the driver sets it when it runs the checks against a scratch copy of the repository).
func OutRoot() string {
	if r := os.Getenv("VERIF_OUT"); r != "" {
		return r
	}
	return Root()
}

func Tier() string {
	if t := os.Getenv("VERIF_TIER"); t == "thorough" {
		return t
	}
	return "quick"
}

func Seed() int64 {
	n, _ := strconv.ParseInt(os.Getenv("VERIF_SEED"), 10, 64)
	if n == 0 {
		n = 1
	}
	return n
}

// EnvInt reads an integer knob the driver passes (case counts, shard ids).
func EnvInt(name string, def int) int {
	if v := os.Getenv(name); v != "" {
		if n, err := strconv.Atoi(v); err == nil {
			return n
		}
	}
	return def
}

type Recorder struct {
	ID          string
	Rule        string
	Assumptions []string

	mu           sync.Mutex
	evaluations  int64
	hashes       map[uint64]struct{}
	bulkDistinct int64
	classes      map[string]int64
	samples      []json.RawMessage
	bigSample    json.RawMessage
	excluded     int64
	violations   int
	known        map[string]int
	extra        map[string]interface{}
	exhaustive   bool
	start        time.Time
}

func New(id, rule string, assumptions ...string) *Recorder {
	return &Recorder{ID: id, Rule: rule, Assumptions: assumptions,
		hashes: map[uint64]struct{}{}, classes: map[string]int64{}, known: map[string]int{},
		extra: map[string]interface{}{}, start: time.Now()}
}

func Hash(b []byte) uint64 {
	h := fnv.New64a()
	h.Write(b)
	return h.Sum64()
}

// Case records one executed case. c is marshalled to JSON for hashing/sampling.
func (r *Recorder) Case(c interface{}, nontrivial bool, classes ...string) {
	var js []byte
	if nontrivial {
		js, _ = json.Marshal(c)
	}
	r.CaseJSON(js, nontrivial, classes...)
}

func (r *Recorder) CaseJSON(js []byte, nontrivial bool, classes ...string) {
	r.mu.Lock()
	defer r.mu.Unlock()
	r.evaluations++
	for _, c := range classes {
		r.classes[c]++
	}
	if !nontrivial {
		r.classes["trivial"]++
		return
	}
	h := Hash(js)
	if _, ok := r.hashes[h]; ok {
		return
	}
	r.hashes[h] = struct{}{}
	if len(js) <= 1200 && len(r.samples) < 3 {
		r.samples = append(r.samples, append(json.RawMessage(nil), js...))
	} else if len(js) <= 5000 && len(js) > len(r.bigSample) {
		r.bigSample = append(json.RawMessage(nil), js...)
	}
}

// Bulk records n executed cases that are distinct and non-trivial by
// construction (exhaustive enumerations), without hashing each.
func (r *Recorder) Bulk(n, nontrivial int64, class string) {
	r.mu.Lock()
	r.evaluations += n
	r.bulkDistinct += nontrivial
	r.classes[class] += n
	r.mu.Unlock()
}

func (r *Recorder) Sample(v interface{}) {
	js, _ := json.Marshal(v)
	r.mu.Lock()
	if len(r.samples) < 8 {
		r.samples = append(r.samples, js)
	}
	r.mu.Unlock()
}

func (r *Recorder) Class(c string, n int64) {
	r.mu.Lock()
	r.classes[c] += n
	r.mu.Unlock()
}

func (r *Recorder) Excluded(n int64) {
	r.mu.Lock()
	r.excluded += n
	r.mu.Unlock()
}

func (r *Recorder) Extra(k string, v interface{}) {
	r.mu.Lock()
	r.extra[k] = v
	r.mu.Unlock()
}

func (r *Recorder) SetExhaustive(b bool) { r.mu.Lock(); r.exhaustive = b; r.mu.Unlock() }

// Violation writes the replay file and prints the VIOLATION line.
func (r *Recorder) Violation(replay interface{}) string {
	js, _ := json.MarshalIndent(replay, "", " ")
	dir := filepath.Join(OutRoot(), "replays")
	_ = os.MkdirAll(dir, 0o755)
	path := filepath.Join(dir, fmt.Sprintf("%s-%016x.json", r.ID, Hash(js)))
	_ = os.WriteFile(path, js, 0o644)
	r.mu.Lock()
	r.violations++
	r.mu.Unlock()
	fmt.Printf("VIOLATION property=%s replay=%s\n", r.ID, path)
	var brief struct {
		Lane, Sig, Message string
	}
	if json.Unmarshal(js, &brief) == nil && brief.Sig != "" {
		m := brief.Message
		if i := strings.IndexByte(m, '\n'); i >= 0 {
			m = m[:i]
		}
		if len(m) > 300 {
			m = m[:300] + "..."
		}
		fmt.Printf("  sig=%s lane=%s %s\n", brief.Sig, brief.Lane, m)
	}
	return path
}

func (r *Recorder) Known(id, what string) {
	r.mu.Lock()
	r.known[id]++
	first := r.known[id] == 1
	r.mu.Unlock()
	if first {
		fmt.Printf("KNOWN-FINDING: property=%s %s [%s]\n", r.ID, what, id)
	}
}

type part struct {
	PropertyID  string                 `json:"property_id"`
	Tier        string                 `json:"tier"`
	Seed        int64                  `json:"seed"`
	Evaluations int64                  `json:"evaluations"`
	Bulk        int64                  `json:"bulk_distinct"`
	Distinct    int64                  `json:"distinct"`
	Rule        string                 `json:"rule"`
	Samples     []json.RawMessage      `json:"samples"`
	Classes     map[string]int64       `json:"classes"`
	Excluded    int64                  `json:"excluded_known"`
	Violations  int                    `json:"violations"`
	Known       map[string]int         `json:"known_findings_confirmed"`
	Extra       map[string]interface{} `json:"extra"`
	Assumptions []string               `json:"assumptions"`
	Exhaustive  bool                   `json:"exhaustive"`
	WallS       float64                `json:"wall_s"`
	HashFile    string                 `json:"hash_file"`
}

// Write writes the part file (VERIF_PART) that the driver merges into
// evidence/<id>.json. Without VERIF_PART it writes under evidence/.parts.
func (r *Recorder) Write() {
	r.mu.Lock()
	defer r.mu.Unlock()
	path := os.Getenv("VERIF_PART")
	if path == "" {
		path = filepath.Join(Root(), "evidence", ".parts", r.ID+"-solo.json")
	}
	_ = os.MkdirAll(filepath.Dir(path), 0o755)
	samples := append([]json.RawMessage(nil), r.samples...)
	if r.bigSample != nil {
		samples = append(samples, r.bigSample)
	}
	hs := make([]uint64, 0, len(r.hashes))
	for h := range r.hashes {
		hs = append(hs, h)
	}
	sort.Slice(hs, func(i, j int) bool { return hs[i] < hs[j] })
	hb := make([]byte, 8*len(hs))
	for i, h := range hs {
		binary.LittleEndian.PutUint64(hb[8*i:], h)
	}
	hashFile := path + ".hashes"
	_ = os.WriteFile(hashFile, hb, 0o644)
	p := part{PropertyID: r.ID, Tier: Tier(), Seed: Seed(), Evaluations: r.evaluations, Bulk: r.bulkDistinct,
		Distinct: int64(len(hs)), Rule: r.Rule, Samples: samples, Classes: r.classes, Excluded: r.excluded,
		Violations: r.violations, Known: r.known, Extra: r.extra, Assumptions: r.Assumptions,
		Exhaustive: r.exhaustive, WallS: time.Since(r.start).Seconds(), HashFile: hashFile}
	js, _ := json.MarshalIndent(p, "", " ")
	_ = os.WriteFile(path, js, 0o644)
}
