package props

import (
	"fmt"
	"testing"

	"pgregory.net/rapid"

	"verif/harness/peer"
)

// C06 — the server never sends DATA beyond the peer's flow-control windows, and finishes.

type c06Act struct {
	Op string `json:"op"` // "wus" stream WINDOW_UPDATE, "wuc" connection WINDOW_UPDATE, "set" SETTINGS_INITIAL_WINDOW_SIZE, "rel" release a handler
	I  int    `json:"i"`
	N  uint32 `json:"n"`
}

type c06Case struct {
	InitWin  uint32   `json:"initwin"` // our first SETTINGS_INITIAL_WINDOW_SIZE (65535 = default, not sent)
	Sizes    []int    `json:"sizes"`   // response body size per stream
	Modes    []int    `json:"modes"`   // response mode per stream (0 buffered, 1 streamed declared, 2 streamed unknown)
	Chunks   []int    `json:"chunks,omitempty"`
	Acts     []c06Act `json:"acts"`
	MaxFrame uint32   `json:"maxframe,omitempty"` // our SETTINGS_MAX_FRAME_SIZE (0 = default)
}

func c06Run(c c06Case) Outcome {
	resps := map[string]peer.Resp{}
	for i := range c.Sizes {
		resps[fmt.Sprintf("t%d", i)] = peer.Resp{Status: 200, BodyLen: c.Sizes[i], Mode: c.Modes[i], Chunks: c.Chunks, Gate: true}
	}
	h := peer.Start(peer.Config{MaxConcurrentStreams: 100, MaxRequestBodySize: 1 << 20, Responses: resps})
	defer h.Close()
	var set [][2]uint32
	if c.InitWin != 65535 {
		set = append(set, [2]uint32{4, c.InitWin})
	}
	if c.MaxFrame != 0 {
		set = append(set, [2]uint32{5, c.MaxFrame})
	}
	h.SendSettings(set)
	n := len(c.Sizes)
	ids := make([]uint32, n)
	released := make([]bool, n)
	for i := 0; i < n; i++ {
		ids[i] = uint32(1 + 2*i)
		sendReq(h, ids[i], simpleReq(fmt.Sprintf("t%d", i)))
	}
	blockedOnce, setWhileOpen := false, false
	check := func(where string) *Outcome {
		if ok, d := h.Quiesce(); !ok {
			return &Outcome{Inconcl: "no quiescence " + where + ": " + d}
		}
		if v := h.FlowViolation(); v != "" {
			o := fail("window-exceeded", "%s: %s", where, v)
			return &o
		}
		evs := h.EventsCopy()
		if ga := peer.GoAways(evs); len(ga) > 0 {
			o := fail("goaway:"+peer.CodeName(ga[0].Code), "%s: GOAWAY(%s, %q)", where, peer.CodeName(ga[0].Code), ga[0].Debug)
			return &o
		}
		got := peer.Assemble(evs)
		for i := 0; i < n; i++ {
			if !released[i] {
				continue
			}
			g := got[ids[i]]
			if g != nil && g.Rst {
				o := fail("rst", "%s: stream %d reset by the server (%s)", where, ids[i], peer.CodeName(g.RstCode))
				return &o
			}
			done := g != nil && g.EndStream > 0
			if done {
				continue
			}
			sw, cw := h.Windows(ids[i])
			recv := 0
			if g != nil {
				recv = len(g.Body)
			}
			if g == nil || g.HdrBlocks == 0 {
				o := fail("no-headers", "%s: handler of stream %d returned but no response HEADERS arrived", where, ids[i])
				return &o
			}
			if sw > 0 && cw > 0 {
				o := fail("stalled", "%s: stream %d has received %d of %d body bytes, its window is %d and the connection window %d (both positive), yet the server is idle", where, ids[i], recv, c.Sizes[i], sw, cw)
				return &o
			}
			blockedOnce = true
		}
		return nil
	}
	if o := check("after the requests"); o != nil {
		return *o
	}
	for k, a := range c.Acts {
		i := a.I % n
		where := ""
		switch a.Op {
		case "rel":
			if released[i] {
				continue
			}
			released[i] = true
			h.Release(fmt.Sprintf("t%d", i))
			where = fmt.Sprintf("action %d: release handler of stream %d", k, ids[i])
		case "wus":
			sw, _ := h.Windows(ids[i])
			nn := a.N
			if int64(nn)+sw > 1<<31-1 {
				nn = uint32(1<<31 - 1 - sw)
			}
			if nn == 0 {
				continue
			}
			got := peer.Assemble(h.EventsCopy())[ids[i]]
			if got != nil && got.EndStream > 0 {
				continue // stream finished: nothing to learn, and the increment would be on a closed stream
			}
			h.SendWindowUpdate(ids[i], nn)
			where = fmt.Sprintf("action %d: WINDOW_UPDATE(stream %d, %d)", k, ids[i], nn)
		case "wuc":
			_, cw := h.Windows(0)
			nn := a.N
			if int64(nn)+cw > 1<<31-1 {
				nn = uint32(1<<31 - 1 - cw)
			}
			if nn == 0 {
				continue
			}
			h.SendWindowUpdate(0, nn)
			where = fmt.Sprintf("action %d: WINDOW_UPDATE(connection, %d)", k, nn)
		case "set":
			// the new initial size must not push any open stream's window over 2^31-1
			nv := a.N
			if nv > 1<<31-1 {
				nv = 1<<31 - 1
			}
			ok := true
			got := peer.Assemble(h.EventsCopy())
			for j := 0; j < n; j++ {
				if g := got[ids[j]]; g != nil && g.EndStream > 0 {
					continue
				}
				sw, _ := h.Windows(ids[j])
				if sw+int64(nv)-int64(h.InitWin) > 1<<31-1 {
					ok = false
				}
				setWhileOpen = true
			}
			if !ok {
				continue
			}
			h.SendSettings([][2]uint32{{4, nv}})
			where = fmt.Sprintf("action %d: SETTINGS_INITIAL_WINDOW_SIZE=%d", k, nv)
		case "setother":
			// a SETTINGS frame that does not mention INITIAL_WINDOW_SIZE leaves every window as it is (RFC 7540 6.5.3)
			kv := [][][2]uint32{nil, {{5, 16384 + a.N%1000}}, {{3, 100}, {6, 1 << 20}}, {{1, a.N % 8192}}}[int(a.N)%4]
			if c.MaxFrame != 0 && len(kv) == 1 && kv[0][0] == 5 {
				kv = nil // the frame-size limit under test stays what the case says
			}
			h.SendSettings(kv)
			where = fmt.Sprintf("action %d: SETTINGS without INITIAL_WINDOW_SIZE %v", k, kv)
		default:
			continue
		}
		if o := check(where); o != nil {
			return *o
		}
	}
	// final phase: release everything, grant generously
	for i := 0; i < n; i++ {
		if !released[i] {
			released[i] = true
			h.Release(fmt.Sprintf("t%d", i))
		}
	}
	for round := 0; round < 12; round++ {
		if o := check(fmt.Sprintf("final phase, round %d", round)); o != nil {
			return *o
		}
		got := peer.Assemble(h.EventsCopy())
		need := false
		for i := 0; i < n; i++ {
			if g := got[ids[i]]; g == nil || g.EndStream == 0 {
				need = true
				sw, _ := h.Windows(ids[i])
				if sw < 1<<20 {
					h.SendWindowUpdate(ids[i], uint32(1<<20-sw))
				}
			}
		}
		if !need {
			break
		}
		_, cw := h.Windows(0)
		if cw < 1<<21 {
			h.SendWindowUpdate(0, uint32(1<<21-cw))
		}
	}
	got := peer.Assemble(h.EventsCopy())
	for i := 0; i < n; i++ {
		tag := fmt.Sprintf("t%d", i)
		rs := resps[tag]
		if msg := checkGot(tag, rs, got[ids[i]]); msg != "" {
			return fail("incomplete", "after generous grants: %s", msg)
		}
	}
	cls := []string{fmt.Sprintf("initwin=%d", c.InitWin)}
	if blockedOnce {
		cls = append(cls, "blocked")
	}
	if setWhileOpen {
		cls = append(cls, "settings-while-open")
	}
	return Outcome{NonTrivial: blockedOnce && setWhileOpen, Classes: cls}
}

func c06Gen(t *rapid.T) c06Case {
	c := c06Case{InitWin: rapid.SampledFrom([]uint32{0, 1, 100, 16383, 65535, 65535, 1 << 20}).Draw(t, "initwin")}
	n := rapid.IntRange(1, 6).Draw(t, "n")
	for i := 0; i < n; i++ {
		c.Sizes = append(c.Sizes, rapid.OneOf(rapid.IntRange(0, 500), rapid.IntRange(0, 200000), rapid.SampledFrom([]int{16384, 65535, 65536, 131072})).Draw(t, "size"))
		c.Modes = append(c.Modes, rapid.SampledFrom([]int{0, 0, 1, 2}).Draw(t, "mode"))
	}
	nc := rapid.IntRange(0, 3).Draw(t, "nchunks")
	for i := 0; i < nc; i++ {
		c.Chunks = append(c.Chunks, rapid.SampledFrom([]int{1, 1000, 16384, 5000, 70000}).Draw(t, "chunk"))
	}
	for i, ch := range c.Chunks {
		for _, sz := range c.Sizes {
			if ch == 1 && sz > 3000 {
				c.Chunks[i] = 777 // one-byte reads of a large body only measure the harness (a DATA frame per byte)
			}
		}
	}
	if rapid.IntRange(0, 4).Draw(t, "mf") == 0 {
		c.MaxFrame = rapid.SampledFrom([]uint32{16384, 16385, 65536, 1<<24 - 1}).Draw(t, "maxframe")
	}
	na := rapid.IntRange(0, 30).Draw(t, "nacts")
	for i := 0; i < na; i++ {
		a := c06Act{Op: rapid.SampledFrom([]string{"rel", "rel", "wus", "wus", "wus", "wuc", "wuc", "set", "setother"}).Draw(t, "op"), I: rapid.IntRange(0, 5).Draw(t, "i")}
		switch a.Op {
		case "wus", "wuc":
			a.N = rapid.OneOf(rapid.SampledFrom([]uint32{1, 2, 100, 16383, 16384, 16385, 65535, 1 << 20}), rapid.Uint32Range(1, 100000)).Draw(t, "n")
		case "setother":
			a.N = rapid.Uint32Range(0, 100000).Draw(t, "other")
		case "set":
			a.N = rapid.OneOf(rapid.SampledFrom([]uint32{0, 1, 100, 16384, 65535, 65536, 1 << 20, 1<<31 - 1}), rapid.Uint32Range(0, 200000)).Draw(t, "v")
		}
		c.Acts = append(c.Acts, a)
	}
	return c
}

func TestC06(t *testing.T) {
	s := newSuite(t, "C06",
		"1..6 concurrent responses (0..200000 bytes, buffered / streamed declared / streamed unknown, generated reader chunking) against our SETTINGS_INITIAL_WINDOW_SIZE from {0,1,100,16383,65535,1MiB}, then a generated schedule of up to 30 actions {release handler, WINDOW_UPDATE(stream, n), WINDOW_UPDATE(connection, n), SETTINGS_INITIAL_WINDOW_SIZE up or down (down far enough to drive open streams negative), SETTINGS frames that do not mention it}, lock-step with quiescence after each action. Oracle: the peer's ledgers (from exactly the SETTINGS/WINDOW_UPDATE it sent) never go negative on a DATA frame, no frame exceeds our MAX_FRAME_SIZE; at every quiescent point a released stream with bytes owed has min(stream, connection) window <= 0 (otherwise the server sits on sendable data); after generous grants every response is complete and exact. Non-trivial = a stream was blocked at least once and a SETTINGS change hit an open stream; distinct by case hash.")
	defer s.finish()
	runLane(s, Lane[c06Case]{Name: "windows", Journal: true, Quick: 4000, Thor: 300000, Gen: c06Gen, Run: c06Run})
}
