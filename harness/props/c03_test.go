package props

import (
	"encoding/hex"
	"errors"
	"fmt"
	"testing"

	"github.com/dgrr/http2"
	"golang.org/x/net/http2/hpack"
	"pgregory.net/rapid"

	"verif/harness/refhpack"
)

// C03 — the HPACK decoder yields exactly what any conforming encoder encoded.

type c03Field struct {
	F        refhpack.Field `json:"f"`
	R        refhpack.Rep   `json:"r"`
	FromTab  int            `json:"ft,omitempty"` // >0: copy name+value of table entry (ft-1) % size (static+dynamic)
	NameTab  int            `json:"nt,omitempty"` // >0: copy only the name of that entry
	FromDyn  int            `json:"fd,omitempty"` // >0: copy name+value of dynamic entry (fd-1) % len, when the table is not empty
	LenTrick bool           `json:"lt,omitempty"` // resize the raw value so its length octet equals the representation octet
}

type c03Op struct {
	Limit   int        `json:"limit,omitempty"` // >=1: the decoder's owner changes the allowed table size to Limit-1 before this block
	Updates []int      `json:"upd,omitempty"`   // size updates at the start of the block (each taken modulo allowed+1)
	Fields  []c03Field `json:"fields"`
}

type c03Case struct {
	Ops []c03Op `json:"ops"`
	// rejection lane: after the valid history above, this block (hex) is decoded
	Block string `json:"block,omitempty"`
	Note  string `json:"note,omitempty"`
}

func c03GenField(t *rapid.T, maxLen int) c03Field {
	var f c03Field
	f.R = genRep(t, "rep")
	switch rapid.IntRange(0, 7).Draw(t, "src") {
	case 6, 7:
		f.FromDyn = 1 + rapid.IntRange(0, 130).Draw(t, "fd")
		f.F.Name = rapid.SampledFrom(customNames).Draw(t, "cname")
		f.F.Value = genValueN(t, "v", genLen(t, "vlen", 40))
	case 0:
		f.FromTab = 1 + rapid.IntRange(0, 200).Draw(t, "ft")
	case 1:
		f.NameTab = 1 + rapid.IntRange(0, 200).Draw(t, "nt")
		f.F.Value = genValueN(t, "v", genLen(t, "vlen", maxLen))
	case 2:
		f.F.Name = rapid.SampledFrom(staticNames).Draw(t, "sname")
		f.F.Value = genValueN(t, "v", genLen(t, "vlen", maxLen))
	case 3:
		f.F.Name = rapid.SampledFrom(customNames).Draw(t, "cname")
		f.F.Value = genValueN(t, "v", genLen(t, "vlen", maxLen))
	default:
		f.F.Name = genToken(t, "name", 1, 40)
		if rapid.Bool().Draw(t, "longname") {
			f.F.Name = genToken(t, "lname", 100, 140)
		}
		f.F.Value = genValueN(t, "v", genLen(t, "vlen", maxLen))
	}
	f.F.Sensitive = rapid.IntRange(0, 9).Draw(t, "sens") == 0
	f.LenTrick = rapid.IntRange(0, 5).Draw(t, "lt") == 0
	return f
}

func c03GenOps(t *rapid.T, maxOps int) []c03Op {
	n := rapid.IntRange(1, maxOps).Draw(t, "nops")
	ops := make([]c03Op, n)
	for i := range ops {
		if rapid.IntRange(0, 7).Draw(t, "chg") == 0 {
			ops[i].Limit = 1 + rapid.SampledFrom([]int{0, 1, 31, 32, 33, 64, 100, 200, 1000, 4095, 4096, 4097, 8192, 65536}).Draw(t, "limit")
		}
		if rapid.IntRange(0, 5).Draw(t, "upd") == 0 {
			k := rapid.IntRange(1, 3).Draw(t, "nupd")
			for j := 0; j < k; j++ {
				ops[i].Updates = append(ops[i].Updates, rapid.OneOf(rapid.SampledFrom([]int{0, 1, 32, 64, 100, 4096, 1 << 20}), rapid.IntRange(0, 70000)).Draw(t, "u"))
			}
		}
		nf := rapid.IntRange(0, 10).Draw(t, "nf")
		if i == 0 && nf == 0 {
			nf = 1
		}
		for j := 0; j < nf; j++ {
			ops[i].Fields = append(ops[i].Fields, c03GenField(t, 400))
		}
	}
	return ops
}

// c03Build turns one op into block bytes with the reference encoder, returning
// the field list a conforming decoder must produce.
func c03Build(enc *refhpack.Encoder, allowed *uint32, op c03Op) (block []byte, want []refhpack.Field, kinds map[int]bool, dynRef bool) {
	kinds = map[int]bool{}
	mustUpdate := false
	if op.Limit >= 1 {
		nl := uint32(op.Limit - 1)
		// A conforming encoder answers every change of the limit with a size
		// update at the start of its next block (required when it shrinks; used
		// here also when it grows, to make the new maximum explicit).
		mustUpdate = true
		*allowed = nl
	}
	ups := op.Updates
	if mustUpdate && len(ups) == 0 {
		ups = []int{int(*allowed)}
	}
	for i, u := range ups {
		v := uint32(u) % (*allowed + 1)
		if mustUpdate && i == len(ups)-1 && v > *allowed {
			v = *allowed
		}
		block = enc.SizeUpdate(block, v)
	}
	if mustUpdate && enc.T.Max > *allowed {
		block = enc.SizeUpdate(block, *allowed)
	}
	for _, cf := range op.Fields {
		f := cf.F
		total := refhpack.StaticLen + len(enc.T.Entries)
		if cf.FromDyn > 0 && len(enc.T.Entries) > 0 {
			e := enc.T.Entries[(cf.FromDyn-1)%len(enc.T.Entries)]
			f.Name, f.Value = e.Name, e.Value
		} else if cf.FromTab > 0 {
			e, _ := enc.T.Lookup(uint64((cf.FromTab-1)%total + 1))
			f.Name, f.Value = e.Name, e.Value
		} else if cf.NameTab > 0 {
			e, _ := enc.T.Lookup(uint64((cf.NameTab-1)%total + 1))
			f.Name = e.Name
		}
		if cf.LenTrick && !cf.R.HuffVal {
			// first octet of the representation as the reference encoder will write it
			probe, _ := (&refhpack.Encoder{T: enc.T.Clone()}).Field(nil, f, cf.R)
			want := int(probe[0] & 0x7f)
			if probe[0]&0x80 == 0 && want > 0 && want < 127 {
				for len(f.Value) < want {
					f.Value += "v"
				}
				f.Value = f.Value[:want]
			}
		}
		full, name := enc.T.Find(f, cf.R.Pick)
		var k int
		block, k = enc.Field(block, f, cf.R)
		kinds[k] = true
		if (k == 0 && full > refhpack.StaticLen) || (k != 0 && cf.R.NameIdx && name > refhpack.StaticLen) {
			dynRef = true
		}
		f.Sensitive = k == 3
		want = append(want, f)
	}
	return
}

// c03Decode runs the decoder under test over one complete block through the
// block-level entry point the server uses.
func c03Decode(hp *http2.HPACK, b []byte) ([]refhpack.Field, error) {
	var out []refhpack.Field
	hf := http2.AcquireHeaderField()
	defer http2.ReleaseHeaderField(hf)
	fields := 0
	for len(b) > 0 {
		// no Reset between fields: the library's own loops (and any caller of Next) decode a whole block into one
		// HeaderField, so whatever a step leaves behind in it is part of what the next one yields
		hf.SetKey("\x00unset")
		hf.SetValue("")
		before := len(b)
		rest, err := hp.VerifNextField(hf, true, fields, b)
		if err != nil {
			return out, err
		}
		if len(rest) >= before {
			return out, fmt.Errorf("NO-PROGRESS: a decoding step consumed nothing (%d bytes left)", before)
		}
		b = rest
		if hf.Key() == "\x00unset" {
			if len(b) == 0 {
				break // the tail of the block was only size updates
			}
			return out, fmt.Errorf("NO-FIELD: a decoding step returned without a field and without consuming the block")
		}
		out = append(out, refhpack.Field{Name: hf.Key(), Value: hf.Value(), Sensitive: hf.IsSensible()})
		fields++
	}
	return out, nil
}

func fieldsEqual(a, b []refhpack.Field) bool {
	if len(a) != len(b) {
		return false
	}
	for i := range a {
		if a[i] != b[i] {
			return false
		}
	}
	return true
}

func fmtFields(fs []refhpack.Field) string {
	s := ""
	for i, f := range fs {
		if i > 0 {
			s += ", "
		}
		v := f.Value
		if len(v) > 24 {
			v = fmt.Sprintf("%s…(%d)", v[:24], len(v))
		}
		s += fmt.Sprintf("%q=%q", f.Name, v)
		if f.Sensitive {
			s += "(S)"
		}
	}
	return "[" + s + "]"
}

func c03Run(c c03Case) Outcome {
	hp := http2.AcquireHPACK()
	defer http2.ReleaseHPACK(hp)
	enc := refhpack.NewEncoder(4096)
	allowed := uint32(4096)
	xdec := hpack.NewDecoder(4096, nil)
	nt := false
	var classes []string
	for i, op := range c.Ops {
		if op.Limit >= 1 {
			hp.SetMaxTableSize(uint32(op.Limit - 1))
			xdec.SetAllowedMaxDynamicTableSize(uint32(op.Limit - 1))
		}
		block, want, kinds, dynRef := c03Build(enc, &allowed, op)
		if len(kinds) >= 2 && dynRef {
			nt = true
		}
		// guard the reference with x/net
		xf, xerr := xnetDecode(xdec, block)
		if xerr != nil {
			return Outcome{Inconcl: fmt.Sprintf("x/net rejects the reference encoder's block %d: %v", i, xerr)}
		}
		if len(xf) != len(want) {
			return Outcome{Inconcl: "x/net and the reference disagree on the field count"}
		}
		for j := range xf {
			if xf[j].Name != want[j].Name || xf[j].Value != want[j].Value || xf[j].Sensitive != want[j].Sensitive {
				return Outcome{Inconcl: "x/net and the reference disagree on a field"}
			}
		}
		got, err := c03Decode(hp, block)
		if err != nil {
			return fail("reject-valid", "block %d (%x): decoder failed with %q on a block a conforming encoder produced; expected %s", i, block, err, fmtFields(want))
		}
		if !fieldsEqual(got, want) {
			return fail("wrong-fields", "block %d (%x): decoded %s, RFC 7541 gives %s", i, block, fmtFields(got), fmtFields(want))
		}
		if dyn := hp.VerifDynamic(); !enc.T.Equal(dyn) {
			return fail("table-desync", "after block %d (%x): decoder's dynamic table has %d entries %v, encoder's has %d %v", i, block, len(dyn), trunc(dyn), len(enc.T.Entries), enc.T.Entries)
		}
	}
	if c.Block != "" {
		raw, err := hex.DecodeString(c.Block)
		if err != nil {
			return Outcome{Inconcl: "bad hex"}
		}
		ref := &refhpack.Decoder{T: enc.T.Clone(), Limit: allowed, MustShrinkTo: -1}
		want, rerr := ref.DecodeBlock(raw)
		got, gerr := c03Decode(hp, raw)
		if gerr != nil && len(gerr.Error()) > 11 && gerr.Error()[:11] == "NO-PROGRESS" {
			return fail("no-progress", "block %x: %v", raw, gerr)
		}
		classes = append(classes, "reject-lane")
		switch {
		case errors.Is(rerr, refhpack.ErrInteger):
			// An integer beyond the reference's limits. If only its *encoding* is long (zero-padded, value below
			// 2^62) an implementation may refuse it or read it, and reading it means reading that value. If its
			// *value* is out of range no table index, string length or table size can be meant: refusing is the
			// only correct outcome, and an implementation whose arithmetic wraps decodes it to something else.
			ref2 := &refhpack.Decoder{T: enc.T.Clone(), Limit: allowed, MustShrinkTo: -1}
			refhpack.LongInts = true
			want2, rerr2 := ref2.DecodeBlock(raw)
			refhpack.LongInts = false
			switch {
			case gerr != nil:
				return Outcome{NonTrivial: true, Classes: append(classes, "impl-limit-refused")}
			case rerr2 != nil:
				return fail("accept-invalid", "block %x carries an integer that is out of range (%v) but decoded to %s", raw, rerr2, fmtFields(got))
			case !fieldsEqual(got, want2):
				return fail("wrong-fields", "block %x (over-long integer encoding): decoded %s, the value it spells gives %s", raw, fmtFields(got), fmtFields(want2))
			}
			return Outcome{NonTrivial: true, Classes: append(classes, "impl-limit-read")}
		case rerr != nil && gerr == nil:
			return fail("accept-invalid", "block %x is invalid (%v) but decoded to %s", raw, rerr, fmtFields(got))
		case rerr == nil && gerr != nil:
			return fail("reject-valid", "block %x is valid (%s) but the decoder failed with %q", raw, fmtFields(want), gerr)
		case rerr == nil:
			if !fieldsEqual(got, want) {
				return fail("wrong-fields", "block %x: decoded %s, RFC 7541 gives %s", raw, fmtFields(got), fmtFields(want))
			}
			if dyn := hp.VerifDynamic(); !ref.T.Equal(dyn) {
				return fail("table-desync", "after block %x: decoder's dynamic table %v, reference %v", raw, trunc(dyn), ref.T.Entries)
			}
			classes = append(classes, "arbitrary-valid")
		default:
			classes = append(classes, "both-reject")
		}
		nt = true
	}
	return Outcome{NonTrivial: nt, Classes: classes}
}

func trunc(d [][2]string) [][2]string {
	if len(d) > 6 {
		return d[:6]
	}
	return d
}

// c03Mutate derives an invalid-or-odd block from the encoder state after ops.
func c03GenBlock(t *rapid.T, ops []c03Op) string {
	enc := refhpack.NewEncoder(4096)
	allowed := uint32(4096)
	for _, op := range ops {
		c03Build(enc, &allowed, op)
	}
	var valid []byte
	vop := c03Op{Fields: []c03Field{c03GenField(t, 60), c03GenField(t, 60)}}
	valid, _, _, _ = c03Build(&refhpack.Encoder{T: enc.T.Clone()}, &allowed, vop)
	total := uint64(refhpack.StaticLen + len(enc.T.Entries))
	var b []byte
	switch rapid.IntRange(0, 9).Draw(t, "mut") {
	case 0: // index 0
		b = append(append([]byte{}, valid...), 0x80)
	case 1: // index just past the table / far past
		idx := total + uint64(rapid.SampledFrom([]int{1, 2, 10, 1000}).Draw(t, "past"))
		b = refhpack.AppendInt(append([]byte{}, valid...), 7, 0x80, idx, 0)
	case 2: // literal with a name index past the table
		idx := total + uint64(rapid.IntRange(1, 3).Draw(t, "past"))
		first, prefix := rapid.SampledFrom([][2]int{{0x40, 6}, {0x00, 4}, {0x10, 4}}).Draw(t, "k"), 0
		prefix = first[1]
		b = refhpack.AppendInt(nil, uint8(prefix), byte(first[0]), idx, 0)
		b = refhpack.AppendString(b, "v", false, 0)
	case 3: // size update above the limit
		b = refhpack.AppendInt(nil, 5, 0x20, uint64(allowed)+uint64(rapid.IntRange(1, 100).Draw(t, "over")), 0)
		b = append(b, valid...)
	case 4: // size update after a field
		b = append(append([]byte{}, valid...), refhpack.AppendInt(nil, 5, 0x20, uint64(rapid.IntRange(0, int(allowed)).Draw(t, "n")), 0)...)
		if rapid.Bool().Draw(t, "more") {
			b = append(b, 0x82)
		}
	case 5: // truncation
		if len(valid) > 1 {
			b = valid[:rapid.IntRange(1, len(valid)-1).Draw(t, "cut")]
		} else {
			b = []byte{0x40}
		}
	case 6: // over-long varint
		if rapid.Bool().Draw(t, "wrap") {
			// a small, meaningful number plus a multiple of 2^64 (or 2^63): ten continuation octets whose last
			// one carries bits that a 64-bit accumulator drops; with wrapping arithmetic it reads as the small number
			first, prefix := rapid.SampledFrom([][2]int{{0x80, 7}, {0x40, 6}, {0x00, 4}, {0x10, 4}}).Draw(t, "wk"), 0
			prefix = first[1]
			small := uint64(rapid.IntRange(1<<prefix-1, 1<<prefix+60).Draw(t, "small")) // needs continuation octets
			b = refhpack.AppendInt(nil, uint8(prefix), byte(first[0]), small, 9)
			// AppendInt(..., pad 9) ends in a zero octet that is the 10th group: give it high bits
			b[len(b)-1] = byte(rapid.SampledFrom([]int{2, 4, 6, 64, 126}).Draw(t, "hi"))
			if first[0] != 0x80 {
				b = refhpack.AppendString(b, "v", false, 0)
			}
			b = append(b, 0x82)
			break
		}
		b = []byte{rapid.SampledFrom([]byte{0xff, 0x7f, 0x0f, 0x1f, 0x3f}).Draw(t, "p")}
		k := rapid.IntRange(1, 12).Draw(t, "k")
		for i := 0; i < k; i++ {
			b = append(b, 0xff)
		}
		b = append(b, rapid.Byte().Draw(t, "last")&0x7f)
	case 7: // bad Huffman in a value
		b = []byte{0x00}
		b = refhpack.AppendString(b, "x-h", false, 0)
		hv := rapid.SampledFrom([][]byte{{0xff, 0xff, 0xff, 0xff}, {0x00}, {0xfe}, {0x1c, 0x00}, {0xff, 0xff, 0xff, 0xfc}}).Draw(t, "hv")
		b = append(b, 0x80|byte(len(hv)))
		b = append(b, hv...)
	case 8: // valid block, possibly with size updates in front
		if rapid.Bool().Draw(t, "su") {
			b = refhpack.AppendInt(nil, 5, 0x20, uint64(rapid.IntRange(0, int(allowed)).Draw(t, "n")), 0)
		}
		b = append(b, valid...)
	default: // arbitrary bytes
		b = rapid.SliceOfN(rapid.OneOf(rapid.Byte(), rapid.SampledFrom([]byte{0x00, 0x40, 0x10, 0x20, 0x3f, 0x7f, 0x80, 0x82, 0xbe, 0xff, 0x0f, 0x1f, 0x01, 0x04})), 1, 40).Draw(t, "raw")
	}
	return hex.EncodeToString(b)
}

func TestC03(t *testing.T) {
	s := newSuite(t, "C03",
		"acceptance: sequences of 1..8 header blocks built by an in-harness RFC 7541 encoder with a per-field representation choice (indexed / literal with, without, never indexing; indexed or literal name; Huffman or raw per string; non-minimal integers), table-driven repeats, size updates and changes of the advertised limit, decoded through the block-level entry point the server uses; oracle = field list and dynamic table equal to the encoder model (x/net decoder guards the model). rejection: the same histories followed by a mutated or arbitrary block, judged against a strict reference decoder. Non-trivial = a block using >=2 representation kinds and a dynamic-table reference, or any rejection-lane block; distinct by case hash.",
		"field names are non-empty tokens (HTTP forbids empty names)", "an over-long (zero-padded) integer encoding may be refused or read as the value it spells; an integer whose value is out of range must be refused (RFC 7541 5.1)")
	defer s.finish()

	runLane(s, Lane[c03Case]{Name: "accept", Quick: 12000, Thor: 1600000,
		Gen: func(t *rapid.T) c03Case { return c03Case{Ops: c03GenOps(t, 8)} }, Run: c03Run})
	runLane(s, Lane[c03Case]{Name: "reject", Quick: 12000, Thor: 1600000,
		Gen: func(t *rapid.T) c03Case {
			ops := c03GenOps(t, 4)
			return c03Case{Ops: ops, Block: c03GenBlock(t, ops)}
		}, Run: c03Run})
}

func FuzzC03(f *testing.F) {
	for _, s := range []string{"82", "418cf1e3c2e5f23a6ba0ab90f4ff", "0004616263640131", "3fe11f82", "20", "ff80808080808080808001", "000361626380", "8286418cf1e3c2e5f23a6ba0ab90f4ff84", "040461626364", "1004abcdabcd"} {
		b, _ := hex.DecodeString(s)
		f.Add(b)
	}
	f.Fuzz(func(t *testing.T, b []byte) {
		c := c03Case{Ops: []c03Op{{Fields: []c03Field{{F: refhpack.Field{Name: "x-a", Value: "1"}, R: refhpack.Rep{Kind: 1}}, {F: refhpack.Field{Name: "x-b", Value: "22"}, R: refhpack.Rep{Kind: 1}}}}}, Block: hex.EncodeToString(b)}
		if o := c03Run(c); o.Fail != "" {
			fuzzViolation("C03", "reject", c, o)
			t.Fatalf("%s", o.Fail)
		}
	})
}

// xnetDecode feeds a block to x/net's decoder. x/net refuses a second size
// update at the start of a block once its table is non-empty (RFC 7541 4.2
// explicitly allows several), so leading size updates are fed one by one.
func xnetDecode(d *hpack.Decoder, block []byte) ([]hpack.HeaderField, error) {
	for len(block) > 0 && block[0]&0xe0 == 0x20 {
		_, rest, err := refhpack.ReadInt(block, 5)
		if err != nil {
			break
		}
		if _, err := d.DecodeFull(block[:len(block)-len(rest)]); err != nil {
			return nil, err
		}
		block = rest
	}
	return d.DecodeFull(block)
}
