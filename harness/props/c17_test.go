package props

import (
	"encoding/hex"
	"fmt"
	"strings"
	"testing"
	"time"

	"github.com/dgrr/http2"
	"pgregory.net/rapid"

	"verif/harness/peer"
	"verif/harness/pooltrack"
	"verif/harness/rawframe"
	"verif/harness/refhpack"
)

// C17 — the server outlives any peer: no panic, no stuck or leaked connection.

type c17Req struct {
	BodyLen int   `json:"blen"`
	Split   int   `json:"split,omitempty"`
	Pad     int   `json:"pad,omitempty"`
	Trailer bool  `json:"trailer,omitempty"`
	Gate    bool  `json:"gate,omitempty"`
	Chunks  []int `json:"chunks,omitempty"`
}

type c17Mut struct {
	K string `json:"k"` // dup, del, flip, lie, insert, swap, type, flags, stream
	I int    `json:"i"` // which frame
	J int    `json:"j"` // which byte / value
	V int    `json:"v"`
}

type c17Case struct {
	Reqs     []c17Req `json:"reqs"`
	Muts     []c17Mut `json:"muts,omitempty"`
	Soup     string   `json:"soup,omitempty"`   // hex of extra raw octets appended (random frame soup)
	CutAt    int      `json:"cut"`              // bytes of the stream to deliver (mod len+1); -1 = all
	Reset    bool     `json:"reset,omitempty"`  // end with a reset-like error instead of EOF
	NoRead   bool     `json:"noread,omitempty"` // the peer never reads what the server writes (bounded queue)
	FailW    int      `json:"failw,omitempty"`  // >0: the server's writes fail after this many octets
	Linger   bool     `json:"linger,omitempty"` // handlers are released only after the peer is gone
	RespLen  int      `json:"resplen,omitempty"`
	Streamed bool     `json:"streamed,omitempty"`
	// Pings (with NoRead only, where no quiescence is needed): the server pings every 2 ms. Fill: before the
	// disconnect the peer, which is not reading, sends PINGs until the server's write queue is exactly full (hook
	// counters), and waits a few ping intervals, so that the server's own timers find the queue full when they fire.
	Pings bool `json:"pings,omitempty"`
	Fill  bool `json:"fill,omitempty"`
}

// c17Recording builds the well-formed client byte stream of the case.
func c17Recording(c c17Case) []byte {
	enc := refhpack.NewEncoder(4096)
	out := []byte(peer.Preface)
	out = rawframe.Append(out, rawframe.Settings, 0, 0, nil)
	for i, r := range c.Reqs {
		id := uint32(1 + 2*i)
		tag := fmt.Sprintf("t%d", i)
		rq := simpleReq(tag)
		rq.Method = "POST"
		var block []byte
		for _, f := range rq.HeaderList() {
			block, _ = enc.Field(block, f.F, f.R)
		}
		hasBody := r.BodyLen > 0 || r.Trailer
		var splits []int
		if r.Split > 0 {
			splits = []int{r.Split}
		}
		for _, f := range peer.SplitBlock(id, block, splits, !hasBody, r.Pad, false, 0, false, 0) {
			out = append(out, f...)
		}
		if hasBody {
			for _, f := range peer.DataFrames(id, peer.BodyFor(tag, r.BodyLen), r.Chunks, nil, !r.Trailer) {
				out = append(out, f...)
			}
			if r.Trailer {
				tb, _ := enc.Field(nil, refhpack.Field{Name: "x-trailer", Value: "t"}, refhpack.Rep{Kind: 1})
				out = append(out, peer.SplitBlock(id, tb, nil, true, 0, false, 0, false, 0)[0]...)
			}
		}
	}
	return out
}

func c17Mutate(stream []byte, muts []c17Mut) []byte {
	pre := len(peer.Preface)
	frames, rest := rawframe.Split(stream[pre:])
	fs := make([][]byte, len(frames))
	for i, f := range frames {
		fs[i] = append([]byte{}, f...)
	}
	for _, m := range muts {
		if len(fs) == 0 {
			break
		}
		i := m.I % len(fs)
		f := fs[i]
		switch m.K {
		case "dup":
			fs = append(fs[:i+1], append([][]byte{append([]byte{}, f...)}, fs[i+1:]...)...)
		case "del":
			fs = append(fs[:i], fs[i+1:]...)
		case "swap":
			j := m.J % len(fs)
			fs[i], fs[j] = fs[j], fs[i]
		case "flip":
			if len(f) > 0 {
				f[m.J%len(f)] ^= byte(1 << uint(m.V%8))
			}
		case "lie": // length field says something else
			l := []int{0, 1, len(f) - 9 + 1, len(f) - 9 - 1, 16384, 16385, 1<<24 - 1}[m.V%7]
			if l < 0 {
				l = 0
			}
			f[0], f[1], f[2] = byte(l>>16), byte(l>>8), byte(l)
		case "type":
			f[3] = byte(m.V % 12)
		case "flags":
			f[4] = byte(m.V)
		case "stream":
			v := []uint32{0, 1, 2, 3, 5, 99, 0x7fffffff, 0x80000001}[m.V%8]
			f[5], f[6], f[7], f[8] = byte(v>>24), byte(v>>16), byte(v>>8), byte(v)
		case "insert":
			var nf []byte
			switch m.V % 8 {
			case 0:
				nf = rawframe.Append(nil, rawframe.RstStream, 0, uint32(1+2*(m.J%4)), rawframe.U32(8))
			case 1:
				nf = rawframe.Append(nil, rawframe.WindowUpdate, 0, uint32(m.J%8), rawframe.U32(uint32(m.J)))
			case 2:
				nf = rawframe.Append(nil, rawframe.Settings, 0, 0, rawframe.SettingsPayload([][2]uint32{{uint32(1 + m.J%6), uint32(m.J * 1000)}}))
			case 3:
				nf = rawframe.Append(nil, rawframe.Ping, byte(m.J%2), 0, make([]byte, 8))
			case 4:
				nf = rawframe.Append(nil, rawframe.GoAway, 0, 0, append(rawframe.U32(uint32(m.J)), rawframe.U32(uint32(m.J%3))...))
			case 5:
				nf = rawframe.Append(nil, rawframe.Priority, 0, uint32(1+2*(m.J%6)), rawframe.PrioritySection(uint32(m.J%7), false, 1))
			case 6:
				nf = rawframe.Append(nil, rawframe.Continuation, byte(m.J%8), uint32(1+2*(m.J%4)), []byte{0x82})
			default:
				nf = rawframe.Append(nil, rawframe.Data, byte(m.J%16), uint32(1+2*(m.J%4)), make([]byte, m.J%50))
			}
			fs = append(fs[:i], append([][]byte{nf}, fs[i:]...)...)
		}
	}
	out := append([]byte{}, stream[:pre]...)
	for _, f := range fs {
		out = append(out, f...)
	}
	return append(out, rest...)
}

var c17Tracker *pooltrack.Tracker

// c17Sequential: the cases of this process run one after the other (TestC17, not the parallel lanes of C19)
var c17Sequential bool

func c17Run(c c17Case) Outcome {
	resps := map[string]peer.Resp{}
	gated := 0
	for i, r := range c.Reqs {
		rs := peer.Resp{Status: 200, BodyLen: c.RespLen, Gate: r.Gate}
		if c.Streamed {
			rs.Mode = 2
		}
		if r.Gate {
			gated++
		}
		resps[fmt.Sprintf("t%d", i)] = rs
	}
	maxStreams := 100
	if len(c.Reqs) > 90 {
		maxStreams = 1024 // the "many handlers" cases
	}
	cfg17 := peer.Config{MaxConcurrentStreams: maxStreams, MaxRequestBodySize: 1 << 20, Responses: resps, DefaultResp: peer.Resp{Status: 200}, Tracker: c17Tracker}
	if c.Pings && c.NoRead {
		cfg17.PingInterval = 2 * time.Millisecond
	}
	h := peer.StartRaw(cfg17)
	defer h.Close()
	if c17Tracker != nil {
		c17Tracker.Take()
		if c17Sequential {
			c17Tracker.Forget()
		}
	}
	stream := c17Mutate(c17Recording(c), c.Muts)
	if c.Soup != "" {
		b, _ := hex.DecodeString(c.Soup)
		stream = append(stream, b...)
	}
	n := len(stream)
	if c.CutAt >= 0 {
		n = c.CutAt % (len(stream) + 1)
	}
	if c.NoRead {
		h.C.HoldReads(true)
		h.S.SetWriteLimit(1024)
	}
	if c.FailW > 0 {
		h.S.FailWritesAfter(int64(c.FailW))
	}
	_ = h.Write(stream[:n])
	if c.NoRead && c.Fill && c.FailW == 0 {
		gap := func() int64 {
			ev := &h.Stats.Ev
			return ev[http2.VerifEvQueued].Load() - ev[http2.VerifEvWritten].Load() - ev[http2.VerifEvDropped].Load()
		}
		by := time.Now().Add(2 * time.Second)
		for k := 0; k < 800 && gap() < 129 && time.Now().Before(by) && h.Stats.Ev[http2.VerifEvReadLoopExit].Load() == 0; k++ {
			_ = h.Write(rawframe.Append(nil, rawframe.Ping, 0, 0, make([]byte, 8)))
			for spin := 0; spin < 2000 && gap() < 129 && h.S.Unread() > 0 && time.Now().Before(by); spin++ {
				time.Sleep(20 * time.Microsecond)
			}
		}
		time.Sleep(8 * time.Millisecond) // a few ping intervals
	}
	if !c.NoRead && c.FailW == 0 {
		// let the server digest what it got before the connection goes
		if ok, d := h.Quiesce(); !ok {
			if !strings.Contains(d, "exits(r/s/w)=0/0/0") {
				// a connection on its way out does not have to be quiescent; only a fully live one does
			} else {
				return Outcome{Inconcl: "no quiescence before the disconnect: " + d}
			}
		}
	} else {
		time.Sleep(300 * time.Microsecond)
	}
	if !c.Linger {
		h.ReleaseAll()
	}
	if c.Reset {
		h.C.Reset()
	} else {
		_ = h.C.Close()
	}
	returned := h.WaitServeDone(6 * time.Second)
	// Not returned after 6 s: stuck, or slow (race build, hundreds of handlers, a loaded machine)? A stuck
	// connection does not change: two looks two seconds apart show the same goroutines in the same states at the
	// same places and the same hook counters. While anything moves, keep waiting (up to a minute in all).
	look := func() string {
		out := ""
		for i := range h.Stats.Ev {
			out += fmt.Sprint(h.Stats.Ev[i].Load(), ",")
		}
		for _, g := range h.ConnGoroutines() {
			out += firstLines(g, 3) + "|"
		}
		return out
	}
	stalled := false
	for try := 0; !returned && try < 27; try++ {
		a := look()
		returned = h.WaitServeDone(2 * time.Second)
		if !returned && look() == a && !peer.AnyLive(h.ConnGoroutines()) {
			stalled = true
			break
		}
	}
	if !returned && !stalled {
		return Outcome{Inconcl: "ServeConn had not returned after a minute but the connection was still changing (machine too slow)"}
	}
	desc := fmt.Sprintf("stream of %d octets cut at %d, %d mutations", len(stream), n, len(c.Muts))
	if !returned {
		gs := h.ConnGoroutines()
		if len(gs) == 0 {
			// bounded-time clause: a timeout alone is not evidence (DESIGN 5.4). No goroutine of this
			// connection is left in the dump, so ServeConn is returning (late, on a busy machine), not stuck.
			return Outcome{Inconcl: "ServeConn had not returned after 6s but no goroutine of the connection is left (machine too slow)"}
		}
		all := ""
		for _, g := range gs {
			all += firstLines(g, 10) + "\n"
		}
		return fail("serveconn-stuck", "%s: the peer is gone (connection closed) but ServeConn has not returned after 6s; goroutines of the connection:\n%s", desc, all)
	}
	for _, l := range h.Log.Lines() {
		if containsPanic(l) {
			return fail("panic-recovered", "%s: the server logged a panic: %s", desc, firstLines(l, 14))
		}
	}
	// goroutines: only handlers the harness still holds may remain
	check := func(allowHandlers bool) string {
		for try := 0; ; try++ {
			left := ""
			for _, g := range h.ConnGoroutines() {
				if allowHandlers && strings.Contains(g, "dispatchHandler") {
					continue
				}
				left = firstLines(g, 12)
			}
			if left == "" {
				return ""
			}
			if try > 300 {
				return left
			}
			time.Sleep(5 * time.Millisecond)
		}
	}
	if left := check(true); left != "" {
		return fail("goroutine-left", "%s: ServeConn returned but a goroutine of the connection (not a handler) is still there:\n%s", desc, left)
	}
	_, _, parkedNow := h.HandlerCounts()
	h.ReleaseAll()
	if left := check(false); left != "" {
		return fail("goroutine-left", "%s: all handlers released but a goroutine of the connection is still there:\n%s", desc, left)
	}
	// handler goroutines do not carry the connection's address in their
	// stacks: once every handler has been released none may remain in the
	// process (cases run one after the other, each ending with this check)
	for try := 0; ; try++ {
		left, n := "", 0
		for _, g := range peer.LibraryGoroutines() {
			if strings.Contains(g, ").dispatchHandler") {
				left = firstLines(g, 12)
				n++
			}
		}
		if n == 0 {
			break
		}
		if try > 400 {
			return fail("handler-goroutine-left", "%s: the peer is gone, ServeConn has returned and every handler has been released (%d were running at the disconnect), but %d handler goroutines are still there, e.g.:\n%s", desc, parkedNow, n, left)
		}
		time.Sleep(5 * time.Millisecond)
	}
	if c17Tracker != nil {
		if v := c17Tracker.Take(); len(v) > 0 {
			c17Tracker.Heal()
			return fail("pool", "%s: %s", desc, v[0])
		}
	}
	// nothing of the connection may be at work any more: its hook counters (frames queued, dropped, written, loop
	// iterations) must stand still. A timer that was re-armed on the way out keeps firing and shows here (each
	// firing is a goroutine of the dead connection, too short-lived for the dump above).
	if cfg17.PingInterval > 0 {
		// (only the server's own timers can be at work on a dead connection, and only this mode arms one)
		var a, b [17]int64
		for i := range a {
			a[i] = h.Stats.Ev[i].Load()
		}
		time.Sleep(12 * time.Millisecond)
		for i := range b {
			b[i] = h.Stats.Ev[i].Load()
		}
		if a != b {
			time.Sleep(12 * time.Millisecond)
			var c3 [17]int64
			for i := range c3 {
				c3[i] = h.Stats.Ev[i].Load()
			}
			if c3 != b {
				return fail("active-after-return", "%s: ServeConn has returned and every handler is gone, but the connection is still at work: its counters moved from %v to %v to %v within 24 ms (a timer of the connection keeps firing)", desc, a, b, c3)
			}
		}
	}
	frames, _ := rawframe.Split(stream[len(peer.Preface):])
	inside := false
	off := len(peer.Preface)
	for _, f := range frames {
		if n > off && n < off+len(f) {
			inside = true
		}
		off += len(f)
	}
	cls := []string{}
	if inside {
		cls = append(cls, "cut-inside-frame")
	}
	if parkedNow > 0 {
		cls = append(cls, "handlers-outlived-connection")
	}
	if len(c.Muts) > 0 {
		cls = append(cls, "mutated")
	}
	if parkedNow > 128 {
		cls = append(cls, "over-128-handlers-at-disconnect")
	}
	if c.NoRead {
		cls = append(cls, "noread")
	}
	if c.NoRead && c.Pings {
		cls = append(cls, "server-pings")
	}
	if c.NoRead && c.Fill && c.FailW == 0 {
		cls = append(cls, "write-queue-filled")
	}
	if c.FailW > 0 {
		cls = append(cls, "write-failure")
	}
	return Outcome{NonTrivial: inside || parkedNow > 0, Classes: cls}
}

func c17Gen(t *rapid.T) c17Case {
	var c c17Case
	n := rapid.IntRange(1, 4).Draw(t, "nreq")
	for i := 0; i < n; i++ {
		r := c17Req{Gate: rapid.IntRange(0, 2).Draw(t, "gate") == 0}
		if rapid.Bool().Draw(t, "body") {
			r.BodyLen = rapid.OneOf(rapid.IntRange(1, 300), rapid.IntRange(1, 40000)).Draw(t, "blen")
			r.Trailer = rapid.IntRange(0, 3).Draw(t, "tr") == 0
			if rapid.Bool().Draw(t, "chunked") {
				r.Chunks = []int{rapid.SampledFrom([]int{1, 10, 1000, 16000}).Draw(t, "chunk")}
				if r.Chunks[0] == 1 && r.BodyLen > 200 {
					r.Chunks[0] = 100
				}
			}
		}
		if rapid.IntRange(0, 2).Draw(t, "split") == 0 {
			r.Split = rapid.IntRange(1, 60).Draw(t, "splitat")
		}
		if rapid.IntRange(0, 3).Draw(t, "pad") == 0 {
			r.Pad = rapid.IntRange(1, 100).Draw(t, "padlen")
		}
		c.Reqs = append(c.Reqs, r)
	}
	if rapid.IntRange(0, 39).Draw(t, "many") == 0 {
		// many handlers in flight at the disconnect (more than the 128 any
		// internal queue holds)
		c.Reqs = nil
		for i := rapid.SampledFrom([]int{100, 129, 130, 200, 400}).Draw(t, "nmany"); i > 0; i-- {
			c.Reqs = append(c.Reqs, c17Req{Gate: true})
		}
	}
	c.CutAt = rapid.OneOf(rapid.Just(-1), rapid.IntRange(0, 100000)).Draw(t, "cut")
	nm := rapid.SampledFrom([]int{0, 0, 1, 2, 4}).Draw(t, "nmut")
	for i := 0; i < nm; i++ {
		c.Muts = append(c.Muts, c17Mut{K: rapid.SampledFrom([]string{"dup", "del", "flip", "lie", "insert", "insert", "swap", "type", "flags", "stream"}).Draw(t, "mk"),
			I: rapid.IntRange(0, 40).Draw(t, "mi"), J: rapid.IntRange(0, 5000).Draw(t, "mj"), V: rapid.IntRange(0, 255).Draw(t, "mv")})
	}
	if rapid.IntRange(0, 4).Draw(t, "soup") == 0 {
		var b []byte
		k := rapid.IntRange(1, 8).Draw(t, "nsoup")
		for i := 0; i < k; i++ {
			b = append(b, c16GenFrame(t)...)
		}
		c.Soup = hex.EncodeToString(b)
	}
	c.Reset = rapid.Bool().Draw(t, "reset")
	c.NoRead = rapid.IntRange(0, 5).Draw(t, "noread") == 0
	c.Pings = rapid.Bool().Draw(t, "pings")
	c.Fill = rapid.Bool().Draw(t, "fill")
	if rapid.IntRange(0, 5).Draw(t, "failw") == 0 {
		c.FailW = rapid.OneOf(rapid.IntRange(1, 100), rapid.IntRange(1, 70000)).Draw(t, "failat")
	}
	c.Linger = rapid.Bool().Draw(t, "linger")
	c.RespLen = rapid.SampledFrom([]int{0, 10, 70000, 200000}).Draw(t, "resplen")
	c.Streamed = rapid.Bool().Draw(t, "streamed")
	return c
}

// ---- bounded-exhaustive lane: every cut offset of a fixed set of recordings, ended by EOF and by a reset, with the
// handlers released before and after the disconnect ("all prefixes of recorded well-formed client byte streams").
var c17EnumRecs = []c17Case{
	{Reqs: []c17Req{{}}},
	{Reqs: []c17Req{{Gate: true, Split: 7, Pad: 9}}},
	{Reqs: []c17Req{{BodyLen: 120, Chunks: []int{50}, Gate: true}}, RespLen: 10},
	{Reqs: []c17Req{{BodyLen: 40, Trailer: true, Split: 20}}, RespLen: 70000, Streamed: true},
	{Reqs: []c17Req{{BodyLen: 30, Gate: true}, {Split: 3}, {BodyLen: 10, Trailer: true, Pad: 3, Gate: true}}, RespLen: 10},
	{Reqs: []c17Req{{BodyLen: 300, Chunks: []int{100}}, {Gate: true, BodyLen: 600, Chunks: []int{250}}}, RespLen: 200000},
}

var c17EnumOff = func() []int {
	off := []int{0}
	for _, r := range c17EnumRecs {
		off = append(off, off[len(off)-1]+4*(len(c17Recording(r))+1))
	}
	return off
}()

func c17EnumAt(i int) c17Case {
	k := 0
	for i >= c17EnumOff[k+1] {
		k++
	}
	i -= c17EnumOff[k]
	c := c17EnumRecs[k]
	c.Reset, c.Linger = i%2 == 1, i%4 >= 2
	c.CutAt = i / 4
	return c
}

func TestC17(t *testing.T) {
	s := newSuite(t, "C17",
		"a recorded well-formed client byte stream (1..4 requests, or 100..400 bodiless ones with parked handlers, with bodies up to 40000, split header blocks, padding, trailers, DATA chunking; built offline with the reference HPACK encoder), then: delivered up to a generated cut offset (any byte, incl. inside a frame header, a header block or a body) or entirely; 0..4 structure-aware mutations (frame duplicate / delete / swap / bit flip / lying length / type, flags or stream-id change / inserted RST_STREAM, WINDOW_UPDATE, SETTINGS, PING, GOAWAY, PRIORITY, CONTINUATION, DATA); optional frame soup appended; the peer never reading (bounded queue) or the server's writes failing from a generated octet on; the connection then ends with EOF or a reset; handlers of some requests parked and released before or after the disconnect; responses of 0..200000 octets buffered or streamed. Oracle: the server's logger never says 'panicked'/'panic in' (recovered panics count), the process survives, ServeConn returns within 6 s of the peer being gone, afterwards only handler goroutines the harness still holds remain and none after release (connection goroutines by the serverConn address in the dump, handler goroutines by dispatchHandler frames anywhere in the process), the pool observer sees no double release and no RequestCtx returned while its handler is inside. Non-trivial = cut inside a frame, or disconnect with a handler running; distinct by case hash.")
	defer s.finish()
	c17Tracker = pooltrack.Start(false)
	c17Sequential = true
	defer func() { pooltrack.Stop(); c17Tracker = nil; c17Sequential = false }()
	runLane(s, Lane[c17Case]{Name: "outlive", Journal: true, Quick: 12000, Thor: 500000, Gen: c17Gen, Run: c17Run})
	runEnum(s, EnumLane[c17Case]{Name: "cuts", Journal: true, N: c17EnumOff[len(c17EnumOff)-1], At: c17EnumAt, Run: c17Run, QuickStride: 3, ThorStride: 1})
}
