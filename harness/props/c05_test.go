package props

import (
	"bufio"
	"bytes"
	"encoding/hex"
	"fmt"
	"sync/atomic"
	"testing"

	"github.com/dgrr/http2"
	xh2 "golang.org/x/net/http2"
	"pgregory.net/rapid"

	"verif/harness/rawframe"
)

// C05 — frames serialise to, and parse from, the RFC 7540 wire layout.

type c05Case struct {
	Type    byte        `json:"type"`
	Flags   byte        `json:"flags"`            // read lane: raw flag octet (any bits); write lane: built from the booleans
	Stream  uint32      `json:"stream"`           //
	R       bool        `json:"r,omitempty"`      // reserved bit of the frame header (read lane)
	Body    string      `json:"body,omitempty"`   // hex: data / header block fragment / debug data
	BodyLen int         `json:"blen,omitempty"`   // >0: body is BodyLen bytes of a pattern instead of Body
	Pad     int         `json:"pad"`              // pad length when PADDED is in Flags
	Fill    byte        `json:"fill,omitempty"`   // padding octet (read lane; any value is legal to receive)
	Dep     uint32      `json:"dep,omitempty"`    //
	Excl    bool        `json:"excl,omitempty"`   //
	Weight  byte        `json:"weight,omitempty"` //
	Code    uint32      `json:"code,omitempty"`   //
	Last    uint32      `json:"last,omitempty"`   //
	RLast   bool        `json:"rlast,omitempty"`  // reserved bit in GOAWAY last-stream-id
	Incr    uint32      `json:"incr,omitempty"`   //
	RIncr   bool        `json:"rincr,omitempty"`  // reserved bit in WINDOW_UPDATE
	Prom    uint32      `json:"prom,omitempty"`   //
	RProm   bool        `json:"rprom,omitempty"`  //
	Set     [][2]uint32 `json:"set,omitempty"`    //
	Ping    string      `json:"ping,omitempty"`   // hex, 8 bytes
	BigRead bool        `json:"big,omitempty"`    // read with a 2^24-1 limit instead of the default
}

func (c c05Case) body() []byte {
	if c.BodyLen > 0 {
		b := make([]byte, c.BodyLen)
		for i := range b {
			b[i] = byte(i*7 + 3)
		}
		return b
	}
	b, _ := hex.DecodeString(c.Body)
	return b
}

func r31(v uint32, r bool) uint32 {
	v &= 0x7fffffff
	if r {
		v |= 1 << 31
	}
	return v
}

// c05Wire builds the frame octets for the read lane from the case, by the
// layouts of RFC 7540 section 6.
func (c c05Case) wire() []byte {
	body := c.body()
	var p []byte
	padded := c.Flags&rawframe.FlagPadded != 0
	switch c.Type {
	case rawframe.Data:
		p = body
		if padded {
			p = rawframe.Padded(body, c.Pad, c.Fill)
		}
	case rawframe.Headers:
		var inner []byte
		if c.Flags&rawframe.FlagPriority != 0 {
			inner = rawframe.PrioritySection(c.Dep, c.Excl, c.Weight)
		}
		inner = append(inner, body...)
		p = inner
		if padded {
			p = rawframe.Padded(inner, c.Pad, c.Fill)
		}
	case rawframe.Priority:
		p = rawframe.PrioritySection(c.Dep, c.Excl, c.Weight)
	case rawframe.RstStream:
		p = rawframe.U32(c.Code)
	case rawframe.Settings:
		if c.Flags&rawframe.FlagAck == 0 {
			p = rawframe.SettingsPayload(c.Set)
		}
	case rawframe.PushPromise:
		inner := append(rawframe.U32(r31(c.Prom, c.RProm)), body...)
		p = inner
		if padded {
			p = rawframe.Padded(inner, c.Pad, c.Fill)
		}
	case rawframe.Ping:
		p, _ = hex.DecodeString(c.Ping)
		p = append(p, make([]byte, 8)...)[:8]
	case rawframe.GoAway:
		p = append(append(rawframe.U32(r31(c.Last, c.RLast)), rawframe.U32(c.Code)...), body...)
	case rawframe.WindowUpdate:
		p = rawframe.U32(r31(c.Incr, c.RIncr))
	case rawframe.Continuation:
		p = body
	}
	return rawframe.Append(nil, c.Type, c.Flags, r31(c.Stream, c.R), p)
}

var sentinelPing = rawframe.Append(nil, rawframe.Ping, 0, 0, []byte("sentinel"))

func c05SettingsWant(set [][2]uint32) (tbl, maxStreams, win, fsize, hsize uint32, push bool) {
	tbl, maxStreams, win, fsize, hsize, push = 4096, 100, 65535, 16384, 0, false
	for _, s := range set {
		switch s[0] {
		case 1:
			tbl = s[1]
		case 2:
			push = s[1] != 0
		case 3:
			maxStreams = s[1]
		case 4:
			win = s[1]
		case 5:
			fsize = s[1]
		case 6:
			hsize = s[1]
		}
	}
	return
}

func c05ReadRun(c c05Case) Outcome {
	wire := c.wire()
	stream := append(append([]byte{}, wire...), sentinelPing...)
	br := bufio.NewReaderSize(bytes.NewReader(stream), 4096)
	var fr *http2.FrameHeader
	var err error
	if c.BigRead {
		fr, err = http2.ReadFrameFromWithSize(br, 1<<24-1)
	} else {
		fr, err = http2.ReadFrameFrom(br)
	}
	if err != nil {
		return fail("reject-wellformed", "well-formed frame %s rejected: %v", c05Desc(wire), err)
	}
	defer http2.ReleaseFrameHeader(fr)
	h, _ := rawframe.ParseHeader(wire)
	bad := func(what string, got, want interface{}) Outcome {
		return fail("read-"+what, "frame %s: %s = %v, want %v", c05Desc(wire), what, got, want)
	}
	if fr.Len() != h.Length {
		return bad("Len", fr.Len(), h.Length)
	}
	if byte(fr.Type()) != c.Type {
		return bad("Type", fr.Type(), c.Type)
	}
	if byte(fr.Flags()) != c.Flags {
		return bad("Flags", byte(fr.Flags()), c.Flags)
	}
	if fr.Stream() != c.Stream&0x7fffffff {
		return bad("Stream", fr.Stream(), c.Stream&0x7fffffff)
	}
	body := c.body()
	switch b := fr.Body().(type) {
	case *http2.Data:
		if b.EndStream() != (c.Flags&1 != 0) {
			return bad("EndStream", b.EndStream(), c.Flags&1 != 0)
		}
		if !bytes.Equal(b.Data(), body) {
			return bad("Data", fmt.Sprintf("%d bytes %x…", len(b.Data()), head(b.Data())), fmt.Sprintf("%d bytes %x…", len(body), head(body)))
		}
	case *http2.Headers:
		if b.EndStream() != (c.Flags&1 != 0) || b.EndHeaders() != (c.Flags&4 != 0) {
			return bad("EndStream/EndHeaders", fmt.Sprint(b.EndStream(), b.EndHeaders()), fmt.Sprint(c.Flags&1 != 0, c.Flags&4 != 0))
		}
		if !bytes.Equal(b.Headers(), body) {
			return bad("Headers", fmt.Sprintf("%d bytes %x…", len(b.Headers()), head(b.Headers())), fmt.Sprintf("%d bytes %x…", len(body), head(body)))
		}
		if c.Flags&rawframe.FlagPriority != 0 {
			if b.Stream() != c.Dep&0x7fffffff || b.Weight() != c.Weight {
				return bad("priority", fmt.Sprint(b.Stream(), b.Weight()), fmt.Sprint(c.Dep&0x7fffffff, c.Weight))
			}
		}
	case *http2.Continuation:
		if b.EndHeaders() != (c.Flags&4 != 0) {
			return bad("EndHeaders", b.EndHeaders(), c.Flags&4 != 0)
		}
		if !bytes.Equal(b.Headers(), body) {
			return bad("Headers", len(b.Headers()), len(body))
		}
	case *http2.Priority:
		if b.Stream() != c.Dep&0x7fffffff || b.Weight() != c.Weight {
			return bad("priority", fmt.Sprint(b.Stream(), b.Weight()), fmt.Sprint(c.Dep&0x7fffffff, c.Weight))
		}
	case *http2.RstStream:
		if uint32(b.Code()) != c.Code {
			return bad("Code", uint32(b.Code()), c.Code)
		}
	case *http2.Settings:
		if b.IsAck() != (c.Flags&1 != 0) {
			return bad("IsAck", b.IsAck(), c.Flags&1 != 0)
		}
		if !b.IsAck() {
			tbl, ms, win, fs, hs, push := c05SettingsWant(c.Set)
			got := fmt.Sprint(b.HeaderTableSize(), b.MaxConcurrentStreams(), b.MaxWindowSize(), b.MaxFrameSize(), b.MaxHeaderListSize(), b.Push())
			want := fmt.Sprint(tbl, ms, win, fs, hs, push)
			if got != want {
				return bad("settings(table,streams,window,frame,hlist,push)", got, want)
			}
		}
	case *http2.Ping:
		want, _ := hex.DecodeString(c.Ping)
		want = append(want, make([]byte, 8)...)[:8]
		if b.IsAck() != (c.Flags&1 != 0) || !bytes.Equal(b.Data(), want) {
			return bad("ping", fmt.Sprint(b.IsAck(), b.Data()), fmt.Sprint(c.Flags&1 != 0, want))
		}
	case *http2.GoAway:
		if b.Stream() != c.Last&0x7fffffff {
			return bad("GoAway.Stream (reserved bit must be ignored)", b.Stream(), c.Last&0x7fffffff)
		}
		if uint32(b.Code()) != c.Code || !bytes.Equal(b.Data(), body) {
			return bad("goaway code/data", fmt.Sprint(uint32(b.Code()), len(b.Data())), fmt.Sprint(c.Code, len(body)))
		}
	case *http2.WindowUpdate:
		if uint32(b.Increment()) != c.Incr&0x7fffffff {
			return bad("Increment", b.Increment(), c.Incr&0x7fffffff)
		}
	case *http2.PushPromise:
		// no getters: re-serialise and read back with x/net
		var buf bytes.Buffer
		bw := bufio.NewWriter(&buf)
		fr2 := http2.AcquireFrameHeader()
		pp := http2.AcquireFrame(http2.FramePushPromise).(*http2.PushPromise)
		_ = pp
		http2.ReleaseFrame(pp)
		fr2.SetStream(fr.Stream())
		fr2.SetBody(fr.Body())
		_, _ = fr2.WriteTo(bw)
		_ = bw.Flush()
		xf := xh2.NewFramer(nil, &buf)
		xf.AllowIllegalReads = true
		f, xerr := xf.ReadFrame()
		if xerr != nil {
			return fail("pp-reserialise", "PUSH_PROMISE %s parsed and written again is unreadable: %v (%x)", c05Desc(wire), xerr, head(buf.Bytes()))
		}
		ppf, ok := f.(*xh2.PushPromiseFrame)
		if !ok || ppf.PromiseID != c.Prom&0x7fffffff || !bytes.Equal(ppf.HeaderBlockFragment(), body) {
			return fail("pp-reserialise", "PUSH_PROMISE %s parsed and written again reads as %v, want promised=%d block=%x", c05Desc(wire), f, c.Prom&0x7fffffff, head(body))
		}
	}
	// forwarding: the frame as parsed, written back through the same FrameHeader, is the same frame to an
	// independent reader (padding may be dropped or redone, reserved and undefined bits may go; data, header block
	// fragment, END_STREAM / END_HEADERS and the priority fields may not change)
	switch {
	case c.Stream&0x7fffffff == 0:
		// x/net's framer refuses these types on stream 0 whatever it is told: nothing to read the result back with
	case c.Type == rawframe.Data || c.Type == rawframe.Headers || c.Type == rawframe.Continuation:
		var fw bytes.Buffer
		bw := bufio.NewWriterSize(&fw, 1<<16)
		_, werr := fr.WriteTo(bw)
		_ = bw.Flush()
		if werr != nil {
			return fail("forward", "frame %s parsed and written back: WriteTo failed: %v", c05Desc(wire), werr)
		}
		xf := xh2.NewFramer(nil, bytes.NewReader(fw.Bytes()))
		xf.AllowIllegalReads = true
		xf.SetMaxReadFrameSize(1<<24 - 1)
		f, xerr := xf.ReadFrame()
		if xerr != nil {
			return fail("forward", "frame %s parsed and written back through the same FrameHeader is not a well-formed frame any more: %v (%s)", c05Desc(wire), xerr, c05Desc(fw.Bytes()))
		}
		if fw.Len() != 9+int(f.Header().Length) {
			return fail("forward", "frame %s parsed and written back: %d octets written for a frame of length %d", c05Desc(wire), fw.Len(), f.Header().Length)
		}
		okf := f.Header().StreamID == c.Stream&0x7fffffff
		switch g := f.(type) {
		case *xh2.DataFrame:
			okf = okf && c.Type == rawframe.Data && bytes.Equal(g.Data(), body) && g.StreamEnded() == (c.Flags&1 != 0)
		case *xh2.HeadersFrame:
			okf = okf && c.Type == rawframe.Headers && bytes.Equal(g.HeaderBlockFragment(), body) && g.StreamEnded() == (c.Flags&1 != 0) && g.HeadersEnded() == (c.Flags&4 != 0) && g.HasPriority() == (c.Flags&rawframe.FlagPriority != 0)
			if okf && g.HasPriority() {
				// the exclusive bit has no place in the library's Headers value (no getter, no setter), so it is
				// not part of what can be forwarded; dependency and weight are
				okf = g.Priority.StreamDep == c.Dep&0x7fffffff && g.Priority.Weight == c.Weight
			}
		case *xh2.ContinuationFrame:
			okf = okf && c.Type == rawframe.Continuation && bytes.Equal(g.HeaderBlockFragment(), body) && g.HeadersEnded() == (c.Flags&4 != 0)
		default:
			okf = false
		}
		if !okf {
			return fail("forward", "frame %s parsed and written back through the same FrameHeader reads as %s: not the same frame", c05Desc(wire), c05Desc(fw.Bytes()))
		}
	}
	// exactly 9+length consumed: the sentinel parses next
	nx, err := http2.ReadFrameFrom(br)
	if err != nil {
		return fail("read-consumed", "after %s the next frame does not parse (%v): not exactly 9+length octets were consumed", c05Desc(wire), err)
	}
	defer http2.ReleaseFrameHeader(nx)
	if p, ok := nx.Body().(*http2.Ping); !ok || string(p.Data()) != "sentinel" {
		return fail("read-consumed", "after %s the next frame is not the sentinel PING", c05Desc(wire))
	}
	nt := c.Flags&rawframe.FlagPadded != 0 || c.Flags&rawframe.FlagPriority != 0 || c.R || c.RLast || c.RIncr || c.RProm || c.Excl
	return Outcome{NonTrivial: nt, Classes: []string{fmt.Sprintf("type%d", c.Type)}}
}

func head(b []byte) []byte {
	if len(b) > 24 {
		return b[:24]
	}
	return b
}

func c05Desc(wire []byte) string {
	h, _ := rawframe.ParseHeader(wire)
	return fmt.Sprintf("{len=%d type=%d flags=%#x stream=%d r=%v payload=%x…}", h.Length, h.Type, h.Flags, h.Stream, h.Reserved, head(wire[9:]))
}

// ---- write direction -------------------------------------------------------

func c05WriteRun(c c05Case) Outcome {
	body := c.body()
	fr := http2.AcquireFrameHeader()
	defer func() {
		if fr.Body() == nil { // a path that wrote through a parsed frame instead
			fr.SetBody(http2.AcquireFrame(http2.FramePing))
		}
		http2.ReleaseFrameHeader(fr)
	}()
	fr.SetStream(c.Stream & 0x7fffffff)
	endStream, endHeaders, padded, ack := c.Flags&1 != 0, c.Flags&4 != 0, c.Flags&8 != 0, c.Flags&1 != 0
	prio := c.Flags&0x20 != 0
	wantFlags := byte(0)
	switch c.Type {
	case rawframe.Data:
		d := http2.AcquireFrame(http2.FrameData).(*http2.Data)
		d.SetEndStream(endStream)
		d.SetPadding(padded)
		d.SetData(body)
		fr.SetBody(d)
		wantFlags = c.Flags & 0x9
	case rawframe.Headers:
		if prio {
			// the priority section has no setter: obtain it by parsing, then
			// change the rest through the setters and write the same frame
			src := c
			src.Flags = rawframe.FlagPriority
			pf, err := http2.ReadFrameFrom(bufio.NewReader(bytes.NewReader(src.wire())))
			if err != nil {
				return Outcome{Inconcl: "cannot parse the priority-bearing source frame: " + err.Error()}
			}
			defer http2.ReleaseFrameHeader(pf)
			pf.SetStream(c.Stream & 0x7fffffff)
			h := pf.Body().(*http2.Headers)
			h.SetEndStream(endStream)
			h.SetEndHeaders(endHeaders)
			h.SetPadding(padded)
			h.SetHeaders(body)
			return c05WriteCheck(c, pf, c.Flags&0x2d, body)
		}
		h := http2.AcquireFrame(http2.FrameHeaders).(*http2.Headers)
		h.SetEndStream(endStream)
		h.SetEndHeaders(endHeaders)
		h.SetPadding(padded)
		h.SetHeaders(body)
		fr.SetBody(h)
		wantFlags = c.Flags & 0x0d
	case rawframe.Continuation:
		k := http2.AcquireFrame(http2.FrameContinuation).(*http2.Continuation)
		k.SetEndHeaders(endHeaders)
		k.SetHeader(body)
		fr.SetBody(k)
		wantFlags = c.Flags & 0x4
	case rawframe.Priority:
		p := http2.AcquireFrame(http2.FramePriority).(*http2.Priority)
		p.SetStream(c.Dep)
		p.SetWeight(c.Weight)
		fr.SetBody(p)
	case rawframe.RstStream:
		r := http2.AcquireFrame(http2.FrameResetStream).(*http2.RstStream)
		r.SetCode(http2.ErrorCode(c.Code))
		fr.SetBody(r)
	case rawframe.Settings:
		st := http2.AcquireFrame(http2.FrameSettings).(*http2.Settings)
		st.SetAck(ack)
		if !ack {
			tbl, ms, win, fs, hs, push := c05SettingsWant(c.Set)
			st.SetHeaderTableSize(tbl)
			st.SetMaxConcurrentStreams(ms)
			st.SetMaxWindowSize(win)
			st.SetMaxFrameSize(fs)
			st.SetMaxHeaderListSize(hs)
			st.SetPush(push)
		}
		fr.SetBody(st)
		wantFlags = c.Flags & 1
	case rawframe.Ping:
		p := http2.AcquireFrame(http2.FramePing).(*http2.Ping)
		p.SetAck(ack)
		d, _ := hex.DecodeString(c.Ping)
		p.SetData(append(d, make([]byte, 8)...)[:8])
		fr.SetBody(p)
		wantFlags = c.Flags & 1
	case rawframe.GoAway:
		g := http2.AcquireFrame(http2.FrameGoAway).(*http2.GoAway)
		g.SetStream(c.Last)
		g.SetCode(http2.ErrorCode(c.Code))
		g.SetData(body)
		fr.SetBody(g)
	case rawframe.WindowUpdate:
		w := http2.AcquireFrame(http2.FrameWindowUpdate).(*http2.WindowUpdate)
		w.SetIncrement(int(c.Incr & 0x7fffffff))
		fr.SetBody(w)
	case rawframe.PushPromise:
		// the promised id has no setter either: parse, then write
		src := c
		src.Flags = c.Flags & 0x4
		pf, err := http2.ReadFrameFrom(bufio.NewReader(bytes.NewReader(src.wire())))
		if err != nil {
			return Outcome{Inconcl: "cannot parse the source PUSH_PROMISE: " + err.Error()}
		}
		defer http2.ReleaseFrameHeader(pf)
		pf.SetStream(c.Stream & 0x7fffffff)
		return c05WriteCheck(c, pf, c.Flags&0x4, body)
	}
	// a frame value can be written more than once (a retransmission on another connection, a log): the second
	// write is the same frame again, not a frame of the first one's padded octets
	if o := c05WriteCheck(c, fr, wantFlags, body); o.Fail != "" || o.Inconcl != "" {
		return o
	}
	o := c05WriteCheck(c, fr, wantFlags, body)
	if o.Fail != "" {
		o.Fail = "second write of the same frame value: " + o.Fail
		o.Sig = "rewrite-" + o.Sig
	}
	return o
}

// c05WriteCheck serialises fr and reads the octets back with x/net and a raw
// header parser.
func c05WriteCheck(c c05Case, fr *http2.FrameHeader, wantFlags byte, body []byte) Outcome {
	var buf bytes.Buffer
	bw := bufio.NewWriterSize(&buf, 1<<16)
	n, err := fr.WriteTo(bw)
	_ = bw.Flush()
	if err != nil {
		return fail("write-error", "WriteTo failed: %v", err)
	}
	wire := buf.Bytes()
	if int(n) != len(wire) {
		return fail("write-count", "WriteTo reported %d octets, wrote %d", n, len(wire))
	}
	h, ok := rawframe.ParseHeader(wire)
	if !ok {
		return fail("write-short", "fewer than 9 octets written: %x", wire)
	}
	bad := func(what string, got, want interface{}) Outcome {
		return fail("write-"+what, "%s written as %s: %s = %v, want %v", c05Want(c), c05Desc(wire), what, got, want)
	}
	if h.Length != len(wire)-9 {
		return bad("length", h.Length, len(wire)-9)
	}
	if h.Type != c.Type {
		return bad("type", h.Type, c.Type)
	}
	if h.Stream != c.Stream&0x7fffffff || h.Reserved {
		return bad("stream", fmt.Sprint(h.Stream, h.Reserved), c.Stream&0x7fffffff)
	}
	if c.Type != rawframe.PushPromise && h.Flags != wantFlags {
		return bad("flags", fmt.Sprintf("%#x", h.Flags), fmt.Sprintf("%#x", wantFlags))
	}
	payload := wire[9:]
	if h.Flags&rawframe.FlagPadded != 0 && (c.Type == rawframe.Data || c.Type == rawframe.Headers) {
		if len(payload) == 0 || int(payload[0]) >= len(payload) {
			return bad("padding", "pad length not below payload length", "valid padding")
		}
		for _, x := range payload[len(payload)-int(payload[0]):] {
			if x != 0 {
				return fail("write-padding-nonzero", "%s written with non-zero padding octets (RFC 7540 6.1: MUST be zero when sending): …%x", c05Want(c), payload[len(payload)-int(payload[0]):])
			}
		}
	}
	xf := xh2.NewFramer(nil, bytes.NewReader(wire))
	xf.AllowIllegalReads = true
	xf.SetMaxReadFrameSize(1<<24 - 1)
	f, xerr := xf.ReadFrame()
	if xerr != nil {
		return fail("write-unreadable", "%s written as %s: an independent parser fails with %v", c05Want(c), c05Desc(wire), xerr)
	}
	switch g := f.(type) {
	case *xh2.DataFrame:
		if !bytes.Equal(g.Data(), body) || g.StreamEnded() != (c.Flags&1 != 0) {
			return bad("data", fmt.Sprint(len(g.Data()), g.StreamEnded()), fmt.Sprint(len(body), c.Flags&1 != 0))
		}
	case *xh2.HeadersFrame:
		if !bytes.Equal(g.HeaderBlockFragment(), body) || g.StreamEnded() != (c.Flags&1 != 0) || g.HeadersEnded() != (c.Flags&4 != 0) {
			return bad("headers", fmt.Sprintf("%x %v %v", head(g.HeaderBlockFragment()), g.StreamEnded(), g.HeadersEnded()), fmt.Sprintf("%x %v %v", head(body), c.Flags&1 != 0, c.Flags&4 != 0))
		}
		if c.Flags&0x20 != 0 {
			if !g.HasPriority() || g.Priority.StreamDep != c.Dep&0x7fffffff || g.Priority.Weight != c.Weight {
				return fail("write-priority", "%s written as %s: priority section reads dep=%d weight=%d (present=%v), want dep=%d weight=%d", c05Want(c), c05Desc(wire), g.Priority.StreamDep, g.Priority.Weight, g.HasPriority(), c.Dep&0x7fffffff, c.Weight)
			}
		}
	case *xh2.ContinuationFrame:
		if !bytes.Equal(g.HeaderBlockFragment(), body) || g.HeadersEnded() != (c.Flags&4 != 0) {
			return bad("continuation", len(g.HeaderBlockFragment()), len(body))
		}
	case *xh2.PriorityFrame:
		if g.StreamDep != c.Dep&0x7fffffff || g.Weight != c.Weight {
			return bad("priority", fmt.Sprint(g.StreamDep, g.Weight), fmt.Sprint(c.Dep&0x7fffffff, c.Weight))
		}
	case *xh2.RSTStreamFrame:
		if uint32(g.ErrCode) != c.Code {
			return bad("code", uint32(g.ErrCode), c.Code)
		}
	case *xh2.SettingsFrame:
		if g.IsAck() != (c.Flags&1 != 0) {
			return bad("ack", g.IsAck(), c.Flags&1 != 0)
		}
		if !g.IsAck() {
			tbl, ms, win, fs, hs, push := c05SettingsWant(c.Set)
			want := map[xh2.SettingID]uint32{1: tbl, 2: 0, 3: ms, 4: win, 5: fs}
			if push {
				want[2] = 1
			}
			if hs != 0 {
				want[6] = hs
			}
			for id, w := range want {
				v, ok := g.Value(id)
				if !ok || v != w {
					return fail("write-settings-omitted", "Settings(table=%d push=%v streams=%d window=%d frame=%d hlist=%d) written as %s: parameter %d reads back as %d (present=%v), want %d", tbl, push, ms, win, fs, hs, c05Desc(wire), id, v, ok, w)
				}
			}
		}
	case *xh2.PingFrame:
		d, _ := hex.DecodeString(c.Ping)
		d = append(d, make([]byte, 8)...)[:8]
		if !bytes.Equal(g.Data[:], d) || g.IsAck() != (c.Flags&1 != 0) {
			return bad("ping", fmt.Sprint(g.Data, g.IsAck()), fmt.Sprint(d, c.Flags&1 != 0))
		}
	case *xh2.GoAwayFrame:
		if g.LastStreamID != c.Last&0x7fffffff || uint32(g.ErrCode) != c.Code&0x7fffffff || !bytes.Equal(g.DebugData(), body) {
			return bad("goaway", fmt.Sprint(g.LastStreamID, uint32(g.ErrCode), len(g.DebugData())), fmt.Sprint(c.Last&0x7fffffff, c.Code&0x7fffffff, len(body)))
		}
	case *xh2.WindowUpdateFrame:
		if g.Increment != c.Incr&0x7fffffff {
			return bad("increment", g.Increment, c.Incr&0x7fffffff)
		}
	case *xh2.PushPromiseFrame:
		if g.PromiseID != c.Prom&0x7fffffff || !bytes.Equal(g.HeaderBlockFragment(), body) {
			return fail("write-pushpromise", "PUSH_PROMISE(promised=%d, block %x…) written as %s: reads back promised=%d block=%x…", c.Prom&0x7fffffff, head(body), c05Desc(wire), g.PromiseID, head(g.HeaderBlockFragment()))
		}
	default:
		return bad("frame kind", fmt.Sprintf("%T", f), c.Type)
	}
	return Outcome{NonTrivial: c.Flags&0x28 != 0, Classes: []string{fmt.Sprintf("type%d", c.Type)}}
}

func c05Want(c c05Case) string {
	return fmt.Sprintf("frame{type=%d stream=%d flags=%#x body=%d bytes dep=%d weight=%d code=%d last=%d incr=%d}", c.Type, c.Stream&0x7fffffff, c.Flags, len(c.body()), c.Dep&0x7fffffff, c.Weight, c.Code, c.Last&0x7fffffff, c.Incr&0x7fffffff)
}

// ---- generators ------------------------------------------------------------

var genU31 = rapid.OneOf(rapid.SampledFrom([]uint32{0, 1, 2, 3, 5, 0x7fffffff, 0x7ffffffe, 0x40000000, 255, 256, 65535, 65536}), rapid.Uint32Range(0, 0x7fffffff))

func c05Gen(t *rapid.T, read bool) c05Case {
	c := c05Case{Type: byte(rapid.IntRange(0, 9).Draw(t, "type"))}
	c.Stream = genU31.Draw(t, "stream")
	if read {
		c.Flags = rapid.OneOf(rapid.Byte(), rapid.SampledFrom([]byte{0, 1, 4, 5, 8, 9, 0x0d, 0x20, 0x2d, 0x28, 0xff, 0x80, 0x02, 0x10, 0x40})).Draw(t, "flags")
		c.R = rapid.IntRange(0, 4).Draw(t, "r") == 0
		c.Fill = rapid.SampledFrom([]byte{0, 0, 0xff, 0x5a}).Draw(t, "fill")
		c.Excl = rapid.Bool().Draw(t, "excl")
		c.RLast = rapid.IntRange(0, 3).Draw(t, "rlast") == 0
		c.RIncr = rapid.IntRange(0, 3).Draw(t, "rincr") == 0
		c.RProm = rapid.IntRange(0, 3).Draw(t, "rprom") == 0
	} else {
		c.Flags = rapid.SampledFrom([]byte{0, 1, 4, 5, 8, 9, 0x0c, 0x0d, 0x20, 0x21, 0x24, 0x25, 0x28, 0x2d}).Draw(t, "flags")
	}
	c.Pad = rapid.OneOf(rapid.IntRange(0, 255), rapid.SampledFrom([]int{0, 1, 254, 255})).Draw(t, "pad")
	switch rapid.IntRange(0, 5).Draw(t, "bodykind") {
	case 0:
	case 1, 2, 3:
		c.Body = hex.EncodeToString(rapid.SliceOfN(rapid.Byte(), 0, 48).Draw(t, "body"))
	case 4:
		c.BodyLen = rapid.SampledFrom([]int{1, 255, 256, 1000, 16383 - 261, 16384 - 261, 16000}).Draw(t, "blen")
	default:
		c.BodyLen = rapid.IntRange(1, 16384-261).Draw(t, "blen")
		if rapid.IntRange(0, 9).Draw(t, "big") == 0 {
			c.BodyLen = rapid.SampledFrom([]int{16384, 16385, 65536, 1 << 20}).Draw(t, "bigblen")
			c.BigRead = true
		}
	}
	c.Dep = genU31.Draw(t, "dep")
	c.Weight = rapid.Byte().Draw(t, "weight")
	c.Code = rapid.OneOf(rapid.Uint32Range(0, 13), rapid.SampledFrom([]uint32{0xffffffff, 0x80000000, 0x7fffffff, 256})).Draw(t, "code")
	c.Last = genU31.Draw(t, "last")
	c.Incr = genU31.Draw(t, "incr")
	c.Prom = genU31.Draw(t, "prom")
	c.Ping = hex.EncodeToString(rapid.SliceOfN(rapid.Byte(), 8, 8).Draw(t, "ping"))
	if c.Type == rawframe.Settings {
		n := rapid.IntRange(0, 8).Draw(t, "nset")
		for i := 0; i < n; i++ {
			id := uint32(rapid.OneOf(rapid.IntRange(1, 6), rapid.SampledFrom([]int{0, 7, 8, 0xffff, 0x10})).Draw(t, "sid"))
			var v uint32
			switch id {
			case 2:
				v = uint32(rapid.IntRange(0, 1).Draw(t, "push"))
			case 4:
				v = genU31.Draw(t, "win")
			case 5:
				v = rapid.OneOf(rapid.SampledFrom([]uint32{16384, 16385, 1<<24 - 1, 65536}), rapid.Uint32Range(16384, 1<<24-1)).Draw(t, "fsize")
			default:
				v = rapid.OneOf(rapid.SampledFrom([]uint32{0, 1, 100, 4096, 65535, 0xffffffff}), rapid.Uint32()).Draw(t, "sval")
			}
			if !read && v == 0 && (id == 1 || id == 3 || id == 4) {
				// known finding C05-K1: Settings.Encode leaves zero values out;
				// the search lane is steered to non-zero values (counted)
				c05Excluded.Add(1)
				v = 1
			}
			c.Set = append(c.Set, [2]uint32{id, v})
		}
	}
	if c.Type == rawframe.PushPromise && c.Stream == 0 {
		c.Stream = 1 // x/net refuses to parse PUSH_PROMISE on stream 0 at all
	}
	if !read {
		// x/net's parser (the oracle of the write lane) refuses stream frames on
		// stream 0 and connection frames elsewhere, whatever AllowIllegalReads says
		switch c.Type {
		case rawframe.Settings, rawframe.Ping, rawframe.GoAway:
			c.Stream = 0
		case rawframe.WindowUpdate:
			if c.Incr&0x7fffffff == 0 {
				c.Incr = 1 // an increment of 0 is not a frame a sender may build; x/net refuses to parse it
			}
		default:
			if c.Stream == 0 {
				c.Stream = 1
			}
		}
	}
	// keep total payload within the reader's limit
	if !c.BigRead {
		over := len(c.body()) + 261 - 16384
		if over > 0 {
			c.BodyLen -= over
		}
	}
	if (c.Type == rawframe.GoAway || c.Type == rawframe.PushPromise) && c.BodyLen > 1<<16 {
		c.BodyLen = 1 << 16
	}
	return c
}

var c05Excluded atomic.Int64

func TestC05(t *testing.T) {
	s := newSuite(t, "C05",
		"read: frames of all 10 types written octet by octet from the RFC 7540 section 6 layouts (any flag octet incl. undefined bits, padding 0..255 with any fill, priority section with exclusive bit, reserved bits in the header / GOAWAY / WINDOW_UPDATE / PUSH_PROMISE, payload up to 16384 and some up to 1 MiB) followed by a sentinel PING, parsed by ReadFrameFrom[WithSize]; oracle = every public getter equals the written field, reserved and undefined bits change nothing, padding stripped, the sentinel parses next. write: frames built through the public setters (priority section / promised id obtained by parsing, as no setter exists), WriteTo output parsed by x/net's Framer and a raw header parser. Non-trivial = padded, priority-bearing or reserved-bit case; distinct by case hash.",
		"SETTINGS values are generated inside their legal ranges (validation belongs to C18)", "window increments and stream ids given to setters are <= 2^31-1 (SetStream documents that it does not mask)")
	defer s.finish()
	runLane(s, Lane[c05Case]{Name: "read", Quick: 40000, Thor: 3200000, Gen: func(t *rapid.T) c05Case { return c05Gen(t, true) }, Run: c05ReadRun})
	runLane(s, Lane[c05Case]{Name: "write", Quick: 30000, Thor: 2400000, Gen: func(t *rapid.T) c05Case { return c05Gen(t, false) }, Run: c05WriteRun})
	s.rec.Excluded(c05Excluded.Load())
}
