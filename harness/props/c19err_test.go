package props

import (
	"fmt"
	"strings"
	"time"

	"github.com/dgrr/http2"
	"pgregory.net/rapid"

	"verif/harness/memconn"
	"verif/harness/pooltrack"
	"verif/harness/rawframe"
	"verif/harness/speer"
)

// C19, "errors" lane — what the client keeps or hands out as the reason a
// connection ended must not be a pooled object that has gone back to its pool.
//
// A connection is made with NewConn over an in-memory pipe; the scripted
// server ends it in a generated way; then other users of the process-wide
// frame pools are simulated by acquiring, filling and releasing frames of every
// type. The connection's LastErr must read the same before and after, must not
// be handed out by a pool, and must not carry the mark the pool observer writes
// into released frames.

type c19ErrCase struct {
	End   string `json:"end"` // goaway | rst | garbage | close | settings-bad | ping-bad
	Last  uint32 `json:"last,omitempty"`
	Code  uint32 `json:"code,omitempty"`
	Debug string `json:"debug,omitempty"`
	Churn int    `json:"churn"`
}

func errText(e error) string {
	if e == nil {
		return "<nil>"
	}
	return e.Error()
}

func c19ErrRun(c c19ErrCase) Outcome {
	cli, srv := memconn.Pair()
	defer srv.Close()
	go func() {
		buf := make([]byte, 4096)
		for {
			if _, err := srv.Read(buf); err != nil {
				return
			}
		}
	}()
	_, _ = srv.Write(rawframe.Append(nil, rawframe.Settings, 0, 0, nil))
	nc := http2.NewConn(cli, http2.ConnOpts{PingInterval: time.Hour})
	if err := nc.Handshake(); err != nil {
		return Outcome{Inconcl: "handshake: " + err.Error()}
	}
	defer nc.Close()
	switch c.End {
	case "goaway":
		p := append(rawframe.U32(c.Last), rawframe.U32(c.Code)...)
		_, _ = srv.Write(rawframe.Append(nil, rawframe.GoAway, 0, 0, append(p, c.Debug...)))
	case "rst":
		_, _ = srv.Write(rawframe.Append(nil, rawframe.RstStream, 0, 0, rawframe.U32(c.Code)))
	case "garbage":
		_, _ = srv.Write([]byte{0x00, 0x00, 0x01, 0x08, 0x00, 0x00, 0x00, 0x00, 0x00, 0xff})
	case "settings-bad":
		_, _ = srv.Write(rawframe.Append(nil, rawframe.Settings, 0, 0, rawframe.SettingsPayload([][2]uint32{{5, 1}})))
	case "ping-bad":
		_, _ = srv.Write(rawframe.Append(nil, rawframe.Ping, 0, 0, []byte("short")))
	case "close":
	}
	// the peer goes away after that: the client reads to the end
	srv.CloseWrite()
	// a state we wait for, not an oracle: the client notices the end and both
	// of its loops finish (the error is final only then)
	dl := time.Now().Add(5 * time.Second)
	for (!nc.Closed() || len(speerClientLoops()) > 0) && time.Now().Before(dl) {
		time.Sleep(200 * time.Microsecond)
	}
	if !nc.Closed() || len(speerClientLoops()) > 0 {
		return Outcome{Inconcl: "the client's loops did not end within 5s of the server going away"}
	}
	e1 := nc.LastErr()
	s1 := errText(e1)
	desc := fmt.Sprintf("connection ended by %s (last=%d code=%d debug=%q)", c.End, c.Last, c.Code, c.Debug)
	if strings.Contains(s1, pooltrack.PoisonMark) || strings.Contains(s1, "7ffffff1") || strings.Contains(s1, "2147483633") {
		return fail("lasterr-released-frame", "%s: Conn.LastErr() reads %q: it is a frame that has been released to its pool (the pool observer marks released frames)", desc, s1)
	}
	// other connections come and go: every frame type is acquired, filled and released
	var held []http2.Frame
	for i := 0; i < c.Churn; i++ {
		for ft := http2.FrameData; ft <= http2.FrameContinuation; ft++ {
			f := http2.AcquireFrame(ft)
			if e1 != nil && interface{}(f) == interface{}(e1) {
				return fail("lasterr-two-owners", "%s: the frame pool handed out the very object Conn.LastErr() returns (%T %p, acquisition %d)", desc, f, f, i)
			}
			switch x := f.(type) {
			case *http2.GoAway:
				x.SetStream(uint32(7 + 2*i))
				x.SetCode(http2.ErrorCode(i % 13))
				x.SetData([]byte(fmt.Sprintf("another connection's GOAWAY %d", i)))
			case *http2.RstStream:
				x.SetCode(http2.ErrorCode((i + 1) % 13))
			case *http2.Data:
				x.SetData([]byte("someone else's body"))
			}
			held = append(held, f)
		}
		if len(held) > 64 {
			for _, f := range held {
				http2.ReleaseFrame(f)
			}
			held = held[:0]
		}
	}
	for _, f := range held {
		http2.ReleaseFrame(f)
	}
	s2 := errText(nc.LastErr())
	if s1 != s2 {
		return fail("lasterr-changed", "%s: Conn.LastErr() read %q when the connection had ended and %q after %d unrelated frames went through the pools: the error is an object somebody else now owns", desc, s1, s2, c.Churn*10)
	}
	return Outcome{NonTrivial: c.End == "goaway" || c.End == "rst", Classes: []string{"err:" + c.End, fmt.Sprintf("err-last0=%v", c.End == "goaway" && c.Last == 0)}}
}

// speerClientLoops lists the client's loop goroutines still alive.
func speerClientLoops() []string {
	var out []string
	for _, g := range speer.ClientGoroutines() {
		if strings.Contains(g, "http2.(*Conn).readLoop") || strings.Contains(g, "http2.(*Conn).writeLoop") {
			out = append(out, g)
		}
	}
	return out
}

func c19ErrGen(t *rapid.T) c19ErrCase {
	c := c19ErrCase{End: rapid.SampledFrom([]string{"goaway", "goaway", "goaway", "rst", "garbage", "close", "settings-bad", "ping-bad"}).Draw(t, "end")}
	c.Last = rapid.SampledFrom([]uint32{0, 0, 1, 3, 1<<31 - 1}).Draw(t, "last")
	c.Code = uint32(rapid.IntRange(0, 14).Draw(t, "code"))
	c.Debug = rapid.StringMatching("[a-z ]{0,20}").Draw(t, "debug")
	c.Churn = rapid.SampledFrom([]int{1, 8, 40}).Draw(t, "churn")
	return c
}
