package props

import (
	"bufio"
	"bytes"
	"encoding/hex"
	"errors"
	"fmt"
	"runtime"
	"testing"

	"github.com/dgrr/http2"
	xh2 "golang.org/x/net/http2"
	"pgregory.net/rapid"

	"verif/harness/pooltrack"
	"verif/harness/rawframe"
	"verif/harness/refhpack"
)

// C16 — wire parsers are total.

type c16Case struct {
	Hex   string `json:"hex"`             // the octets offered to the reader
	Max   uint32 `json:"max"`             // 0: ReadFrameFrom (default limit 16384); else ReadFrameFromWithSize(max)
	Zeros int    `json:"zeros,omitempty"` // extra zero octets appended (keeps big payloads out of the hex)
	Alloc bool   `json:"alloc,omitempty"` // measure allocation of the first read
}

func (c c16Case) bytes() []byte {
	b, _ := hex.DecodeString(c.Hex)
	if c.Zeros > 0 {
		b = append(b, make([]byte, c.Zeros)...)
	}
	return b
}

// c16Struct says whether a complete frame is structurally possible under
// RFC 7540 section 6 (fixed sizes and padding rules only).
func c16Struct(h rawframe.Header, p []byte) (ok bool, why string) {
	padded := func(p []byte, extra int) (bool, string) {
		if len(p) < 1 {
			return false, "PADDED frame without a pad length octet"
		}
		if int(p[0])+1+extra > len(p) {
			return false, "padding does not fit in the payload"
		}
		return true, ""
	}
	switch h.Type {
	case rawframe.Data:
		if h.Flags&rawframe.FlagPadded != 0 {
			return padded(p, 0)
		}
	case rawframe.Headers:
		extra := 0
		if h.Flags&rawframe.FlagPriority != 0 {
			extra = 5
		}
		if h.Flags&rawframe.FlagPadded != 0 {
			return padded(p, extra)
		}
		if len(p) < extra {
			return false, "priority section cut short"
		}
	case rawframe.Priority:
		if len(p) != 5 {
			return false, "PRIORITY payload is not 5 octets"
		}
	case rawframe.RstStream:
		if len(p) != 4 {
			return false, "RST_STREAM payload is not 4 octets"
		}
	case rawframe.Settings:
		if len(p)%6 != 0 {
			return false, "SETTINGS payload is not a multiple of 6"
		}
		if h.Flags&rawframe.FlagAck != 0 && len(p) != 0 {
			return false, "SETTINGS ACK with a payload"
		}
	case rawframe.PushPromise:
		if h.Flags&rawframe.FlagPadded != 0 {
			return padded(p, 4)
		}
		if len(p) < 4 {
			return false, "PUSH_PROMISE without a promised stream id"
		}
	case rawframe.Ping:
		if len(p) != 8 {
			return false, "PING payload is not 8 octets"
		}
	case rawframe.GoAway:
		if len(p) < 8 {
			return false, "GOAWAY payload under 8 octets"
		}
	case rawframe.WindowUpdate:
		if len(p) != 4 {
			return false, "WINDOW_UPDATE payload is not 4 octets"
		}
	}
	return true, ""
}

func c16SettingsSemantic(p []byte) bool {
	for i := 0; i+6 <= len(p); i += 6 {
		id := uint16(p[i])<<8 | uint16(p[i+1])
		v := uint32(p[i+2])<<24 | uint32(p[i+3])<<16 | uint32(p[i+4])<<8 | uint32(p[i+5])
		switch id {
		case 2:
			if v > 1 {
				return false
			}
		case 4:
			if v > 1<<31-1 {
				return false
			}
		case 5:
			if v < 1<<14 || v > 1<<24-1 {
				return false
			}
		}
	}
	return true
}

// c16Compare checks a successfully parsed frame against x/net's reading.
func c16Compare(fr *http2.FrameHeader, wire []byte) string {
	h, _ := rawframe.ParseHeader(wire)
	if fr.Len() != h.Length || byte(fr.Type()) != h.Type || byte(fr.Flags()) != h.Flags || fr.Stream() != h.Stream {
		return fmt.Sprintf("header read as len=%d type=%d flags=%#x stream=%d, octets say len=%d type=%d flags=%#x stream=%d", fr.Len(), fr.Type(), byte(fr.Flags()), fr.Stream(), h.Length, h.Type, h.Flags, h.Stream)
	}
	xf := xh2.NewFramer(nil, bytes.NewReader(wire))
	xf.AllowIllegalReads = true
	xf.SetMaxReadFrameSize(1<<24 - 1)
	f, err := xf.ReadFrame()
	if err != nil {
		return "" // x/net objects on semantic grounds (stream 0 etc.): nothing to compare with
	}
	switch g := f.(type) {
	case *xh2.DataFrame:
		if b := fr.Body().(*http2.Data); !bytes.Equal(b.Data(), g.Data()) || b.EndStream() != g.StreamEnded() {
			return fmt.Sprintf("DATA read as %d bytes end=%v, x/net reads %d bytes end=%v", len(b.Data()), b.EndStream(), len(g.Data()), g.StreamEnded())
		}
	case *xh2.HeadersFrame:
		b := fr.Body().(*http2.Headers)
		if !bytes.Equal(b.Headers(), g.HeaderBlockFragment()) || b.EndStream() != g.StreamEnded() || b.EndHeaders() != g.HeadersEnded() {
			return fmt.Sprintf("HEADERS read as block %x es=%v eh=%v, x/net reads %x es=%v eh=%v", head(b.Headers()), b.EndStream(), b.EndHeaders(), head(g.HeaderBlockFragment()), g.StreamEnded(), g.HeadersEnded())
		}
		if g.HasPriority() && (b.Stream() != g.Priority.StreamDep || b.Weight() != g.Priority.Weight) {
			return fmt.Sprintf("HEADERS priority read as dep=%d w=%d, x/net reads dep=%d w=%d", b.Stream(), b.Weight(), g.Priority.StreamDep, g.Priority.Weight)
		}
	case *xh2.ContinuationFrame:
		if b := fr.Body().(*http2.Continuation); !bytes.Equal(b.Headers(), g.HeaderBlockFragment()) || b.EndHeaders() != g.HeadersEnded() {
			return "CONTINUATION differs from x/net's reading"
		}
	case *xh2.PriorityFrame:
		if b := fr.Body().(*http2.Priority); b.Stream() != g.StreamDep || b.Weight() != g.Weight {
			return "PRIORITY differs from x/net's reading"
		}
	case *xh2.RSTStreamFrame:
		if b := fr.Body().(*http2.RstStream); uint32(b.Code()) != uint32(g.ErrCode) {
			return "RST_STREAM code differs from x/net's reading"
		}
	case *xh2.PingFrame:
		if b := fr.Body().(*http2.Ping); !bytes.Equal(b.Data(), g.Data[:]) || b.IsAck() != g.IsAck() {
			return "PING differs from x/net's reading"
		}
	case *xh2.GoAwayFrame:
		if b := fr.Body().(*http2.GoAway); b.Stream() != g.LastStreamID || uint32(b.Code()) != uint32(g.ErrCode) || !bytes.Equal(b.Data(), g.DebugData()) {
			return fmt.Sprintf("GOAWAY read as last=%d code=%d, x/net reads last=%d code=%d", b.Stream(), uint32(b.Code()), g.LastStreamID, uint32(g.ErrCode))
		}
	case *xh2.WindowUpdateFrame:
		if b := fr.Body().(*http2.WindowUpdate); uint32(b.Increment()) != g.Increment {
			return "WINDOW_UPDATE increment differs from x/net's reading"
		}
	case *xh2.SettingsFrame:
		b := fr.Body().(*http2.Settings)
		if b.IsAck() != g.IsAck() {
			return "SETTINGS ack differs"
		}
		if v, ok := g.Value(xh2.SettingMaxConcurrentStreams); ok && b.MaxConcurrentStreams() != v && g.NumSettings() > 0 {
			// last value wins in both
			last := v
			_ = g.ForeachSetting(func(s xh2.Setting) error {
				if s.ID == xh2.SettingMaxConcurrentStreams {
					last = s.Val
				}
				return nil
			})
			if b.MaxConcurrentStreams() != last {
				return "SETTINGS max concurrent streams differs from x/net's reading"
			}
		}
	}
	return ""
}

var c16Tracker *pooltrack.Tracker

func c16Run(c c16Case) Outcome {
	all := c.bytes()
	limit := c.Max
	if limit == 0 {
		limit = 16384
	}
	if c16Tracker != nil {
		c16Tracker.Take()
	}
	br := bufio.NewReaderSize(bytes.NewReader(all), 512)
	read := func() (fr *http2.FrameHeader, err error, pan interface{}) {
		defer func() { pan = recover() }()
		if c.Max == 0 {
			fr, err = http2.ReadFrameFrom(br)
		} else {
			fr, err = http2.ReadFrameFromWithSize(br, c.Max)
		}
		return
	}
	rem := all
	nt := false
	var classes []string
	frames := 0
	for step := 0; step < 12; step++ {
		var before runtime.MemStats
		if c.Alloc && step == 0 {
			runtime.ReadMemStats(&before)
		}
		fr, err, pan := read()
		if c.Alloc && step == 0 {
			var after runtime.MemStats
			runtime.ReadMemStats(&after)
			if d := after.TotalAlloc - before.TotalAlloc; err != nil && d > uint64(limit)+64<<10 {
				return fail("alloc-before-reject", "reading %x… allocated %d bytes before failing (%v); the frame-size limit is %d", head(all), d, err, limit)
			}
		}
		if pan != nil {
			return fail("panic", "reading %s (limit %d) panicked: %v", c16Desc(rem), limit, pan)
		}
		h, okh := rawframe.ParseHeader(rem)
		expectFail := ""
		complete := okh && len(rem) >= 9+h.Length
		switch {
		case !okh:
			expectFail = "fewer than 9 octets left"
		case h.Length > int(limit):
			expectFail = fmt.Sprintf("length %d over the limit %d", h.Length, limit)
		case !complete:
			expectFail = "payload truncated"
			nt = true
		case h.Type > 9:
			// unknown type: reported as such, reader must sit at the next frame
			if err == nil || !errors.Is(err, http2.ErrUnknownFrameType) {
				return fail("unknown-type", "unknown frame type %d at %s: got frame=%v err=%v, want ErrUnknownFrameType", h.Type, c16Desc(rem), fr != nil, err)
			}
			rem = rem[9+h.Length:]
			classes = append(classes, "unknown-type")
			nt = true
			continue
		default:
			if ok, why := c16Struct(h, rem[9:9+h.Length]); !ok {
				expectFail = why
				nt = true
			}
		}
		if expectFail != "" {
			if err == nil {
				d := ""
				if fr != nil {
					d = fmt.Sprintf(" (returned type=%d len=%d)", fr.Type(), fr.Len())
					http2.ReleaseFrameHeader(fr)
				}
				return fail("accept-impossible", "frame %s accepted%s although: %s", c16Desc(rem), d, expectFail)
			}
			classes = append(classes, "rejected")
			break
		}
		if err != nil {
			if h.Type == rawframe.Settings && !c16SettingsSemantic(rem[9:9+h.Length]) {
				classes = append(classes, "settings-semantic")
				break
			}
			return fail("reject-wellformed", "frame %s is complete, within the limit and structurally possible, but reading failed: %v", c16Desc(rem), err)
		}
		nt = true
		frames++
		if msg := c16Compare(fr, rem[:9+h.Length]); msg != "" {
			http2.ReleaseFrameHeader(fr)
			return fail("misread", "frame %s: %s", c16Desc(rem), msg)
		}
		http2.ReleaseFrameHeader(fr)
		rem = rem[9+h.Length:]
	}
	classes = append(classes, fmt.Sprintf("frames=%d", min(frames, 3)))
	if c16Tracker != nil {
		if v := c16Tracker.Take(); len(v) > 0 {
			c16Tracker.Heal()
			return fail("pool", "after reading %x… (limit %d): %s", head(all), limit, v[0])
		}
		// two owners would also show as the same object handed out twice
		seen := map[interface{}]bool{}
		var got []*http2.FrameHeader
		for i := 0; i < 4; i++ {
			f := http2.AcquireFrameHeader()
			if seen[f] {
				return fail("pool-two-owners", "after reading %x… the frame header pool hands out the same object twice", head(all))
			}
			seen[f] = true
			f.SetBody(http2.AcquireFrame(http2.FramePing))
			got = append(got, f)
		}
		for t := 0; t <= 9; t++ {
			a, b := http2.AcquireFrame(http2.FrameType(t)), http2.AcquireFrame(http2.FrameType(t))
			if a == b {
				return fail("pool-two-owners", "after reading %x… (limit %d) the pool of frame type %d hands out the same object to two acquirers", head(all), limit, t)
			}
			http2.ReleaseFrame(a)
			http2.ReleaseFrame(b)
		}
		for _, f := range got {
			http2.ReleaseFrameHeader(f)
		}
		if v := c16Tracker.Take(); len(v) > 0 {
			return fail("pool", "after reading %x… (limit %d): %s", head(all), limit, v[0])
		}
	}
	return Outcome{NonTrivial: nt, Classes: classes}
}

func c16Desc(rem []byte) string {
	h, ok := rawframe.ParseHeader(rem)
	if !ok {
		return fmt.Sprintf("{%d stray octets %x}", len(rem), head(rem))
	}
	have := len(rem) - 9
	if have > h.Length {
		have = h.Length
	}
	return fmt.Sprintf("{len=%d type=%d flags=%#x stream=%d, %d payload octets present: %x…}", h.Length, h.Type, h.Flags, h.Stream, have, head(rem[9:9+have]))
}

// ---- generators ------------------------------------------------------------

// one frame, valid or structurally broken in a chosen way
func c16GenFrame(t *rapid.T) []byte {
	switch rapid.IntRange(0, 9).Draw(t, "shape") {
	case 0, 1, 2, 3: // well-formed frame from the C05 layouts
		c := c05Gen(t, true)
		if c.BodyLen > 600 {
			c.BodyLen = rapid.IntRange(1, 600).Draw(t, "blen2")
		}
		c.BigRead = false
		return c.wire()
	case 4: // fixed-size types with a wrong size
		typ := rapid.SampledFrom([]byte{rawframe.Priority, rawframe.RstStream, rawframe.Ping, rawframe.WindowUpdate, rawframe.Settings, rawframe.GoAway}).Draw(t, "ftype")
		n := rapid.SampledFrom([]int{0, 1, 3, 4, 5, 6, 7, 8, 9, 10, 12, 13}).Draw(t, "n")
		return rawframe.Append(nil, typ, rapid.SampledFrom([]byte{0, 1}).Draw(t, "fl"), genU31.Draw(t, "sid"), make([]byte, n))
	case 5: // padding at or beyond the payload
		typ := rapid.SampledFrom([]byte{rawframe.Data, rawframe.Headers, rawframe.PushPromise}).Draw(t, "ptype")
		n := rapid.IntRange(0, 12).Draw(t, "n")
		p := rapid.SliceOfN(rapid.OneOf(rapid.Byte(), rapid.ByteRange(0, 14)), n, n).Draw(t, "payload")
		fl := byte(rawframe.FlagPadded) | rapid.SampledFrom([]byte{0, 0x20, 0x4, 0x1}).Draw(t, "fl")
		return rawframe.Append(nil, typ, fl, genU31.Draw(t, "sid"), p)
	case 6: // priority flag with a short payload
		n := rapid.IntRange(0, 6).Draw(t, "n")
		return rawframe.Append(nil, rawframe.Headers, 0x20|rapid.SampledFrom([]byte{0, 8, 4}).Draw(t, "fl"), 1, make([]byte, n))
	case 7: // unknown type
		n := rapid.IntRange(0, 40).Draw(t, "n")
		return rawframe.Append(nil, rapid.SampledFrom([]byte{10, 11, 0x7f, 0x80, 0xfe, 0xff}).Draw(t, "utype"), rapid.Byte().Draw(t, "fl"), genU31.Draw(t, "sid"), make([]byte, n))
	case 8: // lying length
		n := rapid.IntRange(0, 20).Draw(t, "n")
		l := rapid.SampledFrom([]int{0, 1, 8, 100, 16384, 16385, 1 << 20, 1<<24 - 1}).Draw(t, "len")
		return rawframe.AppendLen(nil, l, byte(rapid.IntRange(0, 10).Draw(t, "type")), rapid.Byte().Draw(t, "fl"), genU31.Draw(t, "sid"), make([]byte, n))
	default:
		return rapid.SliceOfN(rapid.Byte(), 0, 40).Draw(t, "raw")
	}
}

func c16Gen(t *rapid.T) c16Case {
	n := rapid.IntRange(1, 4).Draw(t, "nframes")
	var b []byte
	for i := 0; i < n; i++ {
		b = append(b, c16GenFrame(t)...)
	}
	c := c16Case{Max: rapid.SampledFrom([]uint32{0, 0, 16384, 100, 1<<24 - 1, 17000}).Draw(t, "max")}
	if rapid.IntRange(0, 3).Draw(t, "cut") == 0 && len(b) > 0 {
		b = b[:rapid.IntRange(0, len(b)-1).Draw(t, "cutat")]
	}
	c.Hex = hex.EncodeToString(b)
	return c
}

func c16GenTrunc(t *rapid.T) c16Case {
	n := rapid.IntRange(1, 4).Draw(t, "nframes")
	var b []byte
	for i := 0; i < n; i++ {
		c := c05Gen(t, true)
		if c.BodyLen > 300 {
			c.BodyLen = rapid.IntRange(1, 300).Draw(t, "blen2")
		}
		b = append(b, c.wire()...)
	}
	cut := rapid.IntRange(0, len(b)).Draw(t, "cut")
	return c16Case{Hex: hex.EncodeToString(b[:cut])}
}

func c16GenAlloc(t *rapid.T) c16Case {
	l := rapid.OneOf(rapid.SampledFrom([]int{16385, 1 << 20, 1<<24 - 1, 1 << 23}), rapid.IntRange(16385, 1<<24-1)).Draw(t, "len")
	typ := byte(rapid.IntRange(0, 12).Draw(t, "type"))
	b := rawframe.AppendLen(nil, l, typ, rapid.Byte().Draw(t, "fl"), genU31.Draw(t, "sid"), nil)
	return c16Case{Hex: hex.EncodeToString(b), Zeros: rapid.SampledFrom([]int{0, 10, 20000}).Draw(t, "zeros"), Max: rapid.SampledFrom([]uint32{0, 16384}).Draw(t, "max"), Alloc: true}
}

// ---- HPACK totality --------------------------------------------------------

type c16HCase struct {
	Hex string `json:"hex"`
}

func c16HRun(c c16HCase) (o Outcome) {
	b, _ := hex.DecodeString(c.Hex)
	hp := http2.AcquireHPACK()
	defer http2.ReleaseHPACK(hp)
	hf := http2.AcquireHeaderField()
	defer http2.ReleaseHeaderField(hf)
	defer func() {
		if p := recover(); p != nil {
			o = fail("panic", "HPACK.Next on %x panicked: %v", b, p)
		}
	}()
	in := len(b)
	steps := 0
	for len(b) > 0 {
		before := len(b)
		rest, err := hp.Next(hf, b)
		if err != nil {
			return Outcome{NonTrivial: steps > 0, Classes: []string{"hpack-error"}}
		}
		if len(rest) >= before {
			return fail("no-progress", "HPACK.Next consumed nothing of %x", b)
		}
		// output bounded by input: a Huffman symbol is at least 5 bits, an
		// indexed field is a static entry or something this block inserted
		if n := len(hf.KeyBytes()) + len(hf.ValueBytes()); n > 2*in+64 {
			return fail("output-unbounded", "HPACK.Next produced a %d byte field from %d input octets", n, in)
		}
		b = rest
		steps++
	}
	return Outcome{NonTrivial: steps > 0, Classes: []string{"hpack-ok"}}
}

// c16HStructGen builds header-block octets from well-formed pieces whose
// prefixed integers (indices, string lengths, table sizes) take hostile
// values: boundaries of 7/14/21/31/32/63/64 bits, non-minimal encodings, and
// one continuation octet too many.
func c16HStructGen(t *rapid.T) c16HCase {
	hostile := []uint64{0, 1, 61, 62, 126, 127, 128, 254, 255, 256, 16383, 16384, 1<<21 - 1, 1 << 21, 1<<31 - 1, 1 << 31, 1<<32 - 1, 1 << 32, 1<<62 + 5, 1<<63 - 1, 1 << 63, 1<<63 + 127, 1<<64 - 1}
	num := func(label string, actual uint64) uint64 {
		switch rapid.IntRange(0, 3).Draw(t, label+"-kind") {
		case 0:
			return actual
		case 1:
			return actual + uint64(rapid.IntRange(-2, 2).Draw(t, label+"-delta"))
		default:
			return rapid.SampledFrom(hostile).Draw(t, label+"-hostile")
		}
	}
	integer := func(dst []byte, label string, prefix uint8, first byte, v uint64) []byte {
		dst = refhpack.AppendInt(dst, prefix, first, v, rapid.SampledFrom([]int{0, 0, 0, 1, 3, 9}).Draw(t, label+"-pad"))
		if rapid.IntRange(0, 9).Draw(t, label+"-over") == 0 {
			// turn the last octet into a continuation and add more: 10 or 11 groups in all
			dst[len(dst)-1] |= 0x80
			for i := rapid.IntRange(1, 11).Draw(t, label+"-groups"); i > 1; i-- {
				dst = append(dst, 0x80|byte(rapid.IntRange(0, 127).Draw(t, label+"-g")))
			}
			dst = append(dst, byte(rapid.IntRange(0, 127).Draw(t, label+"-last")))
		}
		return dst
	}
	str := func(dst []byte, label string) []byte {
		body := []byte(rapid.StringMatching("[a-z0-9-]{0,12}").Draw(t, label))
		var first byte
		if rapid.Bool().Draw(t, label+"-huff") {
			first = 0x80
			body = refhpack.HuffEncode(body)
		}
		dst = integer(dst, label+"-len", 7, first, num(label+"-len", uint64(len(body))))
		return append(dst, body...)
	}
	var b []byte
	for n := rapid.IntRange(1, 5).Draw(t, "pieces"); n > 0; n-- {
		switch rapid.IntRange(0, 5).Draw(t, "piece") {
		case 0: // indexed field
			b = integer(b, "idx", 7, 0x80, num("idx", uint64(rapid.IntRange(1, 70).Draw(t, "idxv"))))
		case 1, 2, 3: // literal: incremental / without indexing / never indexed
			form := rapid.SampledFrom([][2]byte{{0x40, 6}, {0x00, 4}, {0x10, 4}}).Draw(t, "form")
			if rapid.Bool().Draw(t, "named") {
				b = integer(b, "nameidx", form[1], form[0], num("nameidx", uint64(rapid.IntRange(1, 70).Draw(t, "nameidxv"))))
			} else {
				b = append(b, form[0])
				b = str(b, "name")
			}
			b = str(b, "value")
		case 4: // dynamic table size update
			b = integer(b, "size", 5, 0x20, num("size", uint64(rapid.IntRange(0, 4096).Draw(t, "sizev"))))
		default:
			b = append(b, rapid.SliceOfN(rapid.Byte(), 1, 6).Draw(t, "raw")...)
		}
	}
	if len(b) > 600 {
		b = b[:600]
	}
	return c16HCase{Hex: hex.EncodeToString(b)}
}

func TestC16(t *testing.T) {
	s := newSuite(t, "C16",
		"frames: streams of 1..4 frames, each either well-formed (C05 layouts, all types/flags/padding) or broken in a chosen way (fixed-size types with wrong sizes, padding >= payload, priority section cut, unknown types, lying lengths, raw octets), optionally cut at any offset, read with ReadFrameFrom / ReadFrameFromWithSize(100|16384|17000|2^24-1) until the first failure; oracle per frame = in-harness RFC 7540 section 6 structure validator (must fail when impossible, truncated or over the limit; must succeed otherwise unless a SETTINGS value is invalid), x/net's reading for the fields, exact consumption (the following frame is judged at 9+length), ErrUnknownFrameType with the reader at the next frame, pool tracker (no double release; fresh acquisitions pairwise distinct), TotalAlloc delta for over-limit lengths. HPACK: arbitrary octets, and blocks built from well-formed pieces whose prefixed integers (indices, string lengths, table sizes) take boundary values up to 2^64-1, non-minimal encodings and over-long continuations, through HPACK.Next: each step consumes or fails (never panics), output bounded. Non-trivial = at least one frame parsed, a truncation inside a frame, an unknown type or a structurally impossible frame; distinct by case hash.",
		"ReadFrameFromWithSize limits below 16384 are used so that over-limit frames stay small; 0 means 'no limit' by the function's own convention and is not passed")
	defer s.finish()

	c16Tracker = pooltrack.Start(false)
	runLane(s, Lane[c16Case]{Name: "frames", Quick: 40000, Thor: 4000000, Gen: c16Gen, Run: c16Run})
	runLane(s, Lane[c16Case]{Name: "truncate", Quick: 20000, Thor: 2000000, Gen: c16GenTrunc, Run: c16Run})
	pooltrack.Stop()
	c16Tracker = nil
	runLane(s, Lane[c16Case]{Name: "alloc", Quick: 300, Thor: 20000, Gen: c16GenAlloc, Run: c16Run})
	runLane(s, Lane[c16HCase]{Name: "hpack", Quick: 40000, Thor: 4000000, Gen: func(t *rapid.T) c16HCase {
		b := rapid.SliceOfN(rapid.OneOf(rapid.Byte(), rapid.SampledFrom([]byte{0x00, 0x40, 0x10, 0x20, 0x3f, 0x7f, 0x80, 0x82, 0xbe, 0xff, 0x0f, 0x1f, 0x01, 0x04, 0x8a})), 0, 64).Draw(t, "b")
		return c16HCase{Hex: hex.EncodeToString(b)}
	}, Run: c16HRun})
	runLane(s, Lane[c16HCase]{Name: "hpack-ints", Quick: 40000, Thor: 4000000, Gen: c16HStructGen, Run: c16HRun})
}

func FuzzC16Frame(f *testing.F) {
	f.Add([]byte{}, uint32(0))
	for _, c := range []c05Case{{Type: 0, Flags: 9, Stream: 1, Body: "6869", Pad: 3}, {Type: 1, Flags: 0x2d, Stream: 3, Body: "8286", Pad: 1, Dep: 1, Weight: 7}, {Type: 4, Set: [][2]uint32{{3, 100}, {4, 65535}}}, {Type: 6, Ping: "0102030405060708"}, {Type: 7, Last: 5, Code: 1, Body: "6279"}, {Type: 8, Incr: 100}, {Type: 3, Stream: 1, Code: 8}, {Type: 2, Stream: 1, Dep: 3, Weight: 1}, {Type: 9, Flags: 4, Stream: 1, Body: "82"}, {Type: 5, Flags: 4, Stream: 1, Prom: 2, Body: "82"}} {
		f.Add(c.wire(), uint32(0))
		f.Add(c.wire(), uint32(100))
	}
	f.Add(rawframe.AppendLen(nil, 1<<24-1, 0, 0, 1, nil), uint32(0))
	f.Add(rawframe.Append(nil, 0, 8, 1, []byte{5, 1, 2}), uint32(0))
	f.Add(rawframe.Append(nil, 0xff, 0, 1, []byte{5, 1, 2}), uint32(16384))
	f.Fuzz(func(t *testing.T, b []byte, max uint32) {
		if max != 0 && max != 100 && max != 16384 {
			max = 1<<24 - 1
		}
		c := c16Case{Hex: hex.EncodeToString(b), Max: max}
		if o := c16Run(c); o.Fail != "" {
			fuzzViolation("C16", "frames", c, o)
			t.Fatalf("%s", o.Fail)
		}
	})
}

func FuzzC16HPACK(f *testing.F) {
	for _, s := range []string{"", "82", "418cf1e3c2e5f23a6ba0ab90f4ff", "0004616263640131", "3fe11f", "ff80808080808080808001", "7f", "0f", "1f00", "007f80808080808080808001", "00017800ff808080808080808001", "40ff808080808080808001", "00817fffffffffffffffff7f"} {
		b, _ := hex.DecodeString(s)
		f.Add(b)
	}
	f.Fuzz(func(t *testing.T, b []byte) {
		c := c16HCase{Hex: hex.EncodeToString(b)}
		if o := c16HRun(c); o.Fail != "" {
			fuzzViolation("C16", "hpack", c, o)
			t.Fatalf("%s", o.Fail)
		}
	})
}
