package props

import (
	"encoding/json"
	"flag"
	"fmt"
	"os"
	"path/filepath"
	"regexp"
	"sort"
	"strconv"
	"strings"
	"testing"

	"pgregory.net/rapid"

	"verif/harness/ev"
)

// Outcome is what executing one case against the real code yields.
type Outcome struct {
	Fail       string   // "" when the property held on this case
	Sig        string   // short class of the failure (for known-finding matching)
	NonTrivial bool     // by the property's stated rule
	Classes    []string // generator-distribution labels
	Inconcl    string   // non-empty: the case could not be decided (harness limit); never a violation
}

func fail(sig, format string, a ...interface{}) Outcome {
	return Outcome{Fail: fmt.Sprintf(format, a...), Sig: sig}
}

// KnownFinding is one entry of /verif/known_findings.json.
type KnownFinding struct {
	Property string `json:"property"`
	ID       string `json:"id"`
	Status   string `json:"status"` // "known" or "fixed"
	What     string `json:"what"`
	Trigger  string `json:"trigger,omitempty"`
	Replay   string `json:"replay,omitempty"` // path relative to /verif
	Sig      string `json:"sig,omitempty"`    // regexp the failure signature must match
	Lane     string `json:"lane,omitempty"`   // sub-check the replay belongs to
	Commit   string `json:"commit,omitempty"`
	Line     string `json:"line,omitempty"` // the "fixed: property=... <commit> <what>" record
}

func loadKnown(prop string) []KnownFinding {
	b, err := os.ReadFile(filepath.Join(ev.Root(), "known_findings.json"))
	if err != nil {
		return nil
	}
	var all struct {
		Findings []KnownFinding `json:"findings"`
	}
	if err := json.Unmarshal(b, &all); err != nil {
		panic("known_findings.json: " + err.Error())
	}
	var out []KnownFinding
	for _, k := range all.Findings {
		if k.Property == prop {
			out = append(out, k)
		}
	}
	return out
}

// replayFile is the on-disk form of a failing (or corpus) case.
type replayFile struct {
	Property string          `json:"property"`
	Lane     string          `json:"lane"`
	Sig      string          `json:"sig,omitempty"`
	Message  string          `json:"message,omitempty"`
	Case     json.RawMessage `json:"case"`
}

// Lane is one generated sub-check of a property: a generator of plain-data
// cases, and a pure executor+oracle.
type Lane[C any] struct {
	Name   string
	Gen    func(*rapid.T) C
	Run    func(C) Outcome
	Quick  int // rapid cases in the quick tier (whole run)
	Thor   int // rapid cases in the thorough tier (whole run, split over shards)
	Hidden bool
	// Journal: write each case to VERIF_JOURNAL before running it, so that a
	// process death inside the library still leaves a replay file.
	Journal bool
}

type suite struct {
	id  string
	rec *ev.Recorder
	t   *testing.T
	kf  []KnownFinding
	bad bool
}

func newSuite(t *testing.T, id, rule string, assumptions ...string) *suite {
	s := &suite{id: id, rec: ev.New(id, rule, assumptions...), t: t, kf: loadKnown(id)}
	t.Cleanup(func() { s.rec.Write() })
	return s
}

func shard() (int, int) { return ev.EnvInt("VERIF_SHARD", 0), ev.EnvInt("VERIF_NSHARDS", 1) }

func tierCount(quick, thorough int) int {
	n := quick
	if ev.Tier() == "thorough" {
		n = thorough
	}
	_, ns := shard()
	n = (n + ns - 1) / ns
	if n < 1 {
		n = 1
	}
	return n
}

func laneSeed(lane string) uint64 {
	sh, _ := shard()
	s := uint64(ev.Seed())*1000003 + uint64(sh)*7919 + ev.Hash([]byte(lane))%1000
	if s == 0 {
		s = 1
	}
	return s
}

// wantLane filters lanes by VERIF_LANE (comma separated names), for debugging.
func wantLane(name string) bool {
	f := os.Getenv("VERIF_LANE")
	if f == "" {
		return true
	}
	for _, x := range strings.Split(f, ",") {
		if x == name {
			return true
		}
	}
	return false
}

func (s *suite) violation(lane string, c interface{}, o Outcome) {
	js, _ := json.Marshal(c)
	s.rec.Violation(replayFile{Property: s.id, Lane: lane, Sig: o.Sig, Message: o.Fail, Case: js})
	s.bad = true
}

// runLane runs: (1) the replay named by VERIF_REPLAY if it belongs to this
// lane, else (2) the lane's corpus files and known-finding confirmations, then
// (3) the rapid search.
// deadlockToFail turns an inconclusive outcome that carries deadlock evidence (a library goroutine blocked on a
// mutex while quiescence could not be reached, see peer.MutexDeadlock) into a violation: every connection-level
// property includes that the exchange makes progress, and "inconclusive" must not hide a wedged loop.
func deadlockToFail(o Outcome) Outcome {
	if o.Fail == "" && strings.Contains(o.Inconcl, "LIBRARY-DEADLOCK") {
		return Outcome{Fail: o.Inconcl, Sig: "deadlock", NonTrivial: o.NonTrivial, Classes: o.Classes}
	}
	return o
}

func runLane[C any](s *suite, l Lane[C]) {
	if !wantLane(l.Name) {
		return
	}
	if run := l.Run; run != nil {
		l.Run = func(c C) Outcome { return deadlockToFail(run(c)) }
	}
	t := s.t
	if rp := os.Getenv("VERIF_REPLAY"); rp != "" {
		b, err := os.ReadFile(rp)
		if err != nil {
			t.Fatalf("replay: %v", err)
		}
		var rf replayFile
		if err := json.Unmarshal(b, &rf); err != nil {
			t.Fatalf("replay: %v", err)
		}
		if rf.Lane != l.Name {
			return
		}
		var c C
		if err := json.Unmarshal(rf.Case, &c); err != nil {
			t.Fatalf("replay case: %v", err)
		}
		o := l.Run(c)
		s.rec.Case(c, true, "replay")
		if o.Fail != "" {
			fmt.Printf("VIOLATION property=%s replay=%s\n", s.id, rp)
			fmt.Printf("  sig=%s\n  %s\n", o.Sig, o.Fail)
			s.bad = true
			t.Errorf("replay fails: [%s] %s", o.Sig, o.Fail)
		} else if o.Inconcl != "" {
			fmt.Printf("replay inconclusive: %s\n", o.Inconcl)
		} else {
			fmt.Printf("replay passes (property holds on this case)\n")
		}
		return
	}

	// (2) corpus + known findings
	kfByReplay := map[string]KnownFinding{}
	for _, k := range s.kf {
		if k.Replay != "" {
			kfByReplay[filepath.Base(k.Replay)] = k
		}
	}
	files, _ := filepath.Glob(filepath.Join(ev.Root(), "corpus", s.id, "*.json"))
	sort.Strings(files)
	for _, f := range files {
		b, err := os.ReadFile(f)
		if err != nil {
			continue
		}
		var rf replayFile
		if json.Unmarshal(b, &rf) != nil || rf.Lane != l.Name {
			continue
		}
		var c C
		if err := json.Unmarshal(rf.Case, &c); err != nil {
			t.Fatalf("corpus %s: %v", f, err)
		}
		o := l.Run(c)
		s.rec.Case(c, true, "corpus")
		k, isKF := kfByReplay[filepath.Base(f)]
		switch {
		case o.Fail == "":
			// holds; a "known" entry that no longer fails prints nothing.
		case isKF && k.Status == "known" && regexp.MustCompile(k.Sig).MatchString(o.Sig):
			s.rec.Known(k.ID, k.What)
		default:
			fmt.Printf("VIOLATION property=%s replay=%s\n", s.id, f)
			fmt.Printf("  corpus case fails: sig=%s %s\n", o.Sig, o.Fail)
			s.bad = true
			t.Errorf("corpus case %s fails: [%s] %s", f, o.Sig, o.Fail)
		}
	}

	// (3) search
	n := tierCount(l.Quick, l.Thor)
	if n <= 0 || l.Gen == nil {
		return
	}
	_ = flag.Set("rapid.checks", strconv.Itoa(n))
	_ = flag.Set("rapid.seed", strconv.FormatUint(laneSeed(l.Name), 10))
	_ = flag.Set("rapid.nofailfile", "true")

	type failing struct {
		c C
		o Outcome
		n int
	}
	var lastFail, smallest *failing
	var inconcl int
	t.Run(l.Name, func(t *testing.T) {
		defer func() {
			if lastFail != nil {
				s.violation(l.Name, lastFail.c, lastFail.o)
			} else if smallest != nil && t.Failed() {
				// rapid could not reproduce the failure on its final replay
				// (schedule dependent); the observed failing execution is still
				// reported, with the smallest failing case seen.
				smallest.o.Fail = "(not reproduced on rapid's final replay) " + smallest.o.Fail
				s.violation(l.Name, smallest.c, smallest.o)
			}
			if inconcl > 0 {
				s.rec.Class(l.Name+":inconclusive", int64(inconcl))
			}
		}()
		jpath := os.Getenv("VERIF_JOURNAL")
		rapid.Check(t, func(rt *rapid.T) {
			c := l.Gen(rt)
			if l.Journal && jpath != "" {
				js, _ := json.Marshal(c)
				b, _ := json.Marshal(replayFile{Property: s.id, Lane: l.Name, Sig: "process-death", Message: "the test process died while this case was running", Case: js})
				_ = os.WriteFile(jpath, b, 0o644)
			}
			o := l.Run(c)
			cl := append([]string{"lane:" + l.Name}, o.Classes...)
			s.rec.Case(c, o.NonTrivial, cl...)
			if o.Inconcl != "" {
				inconcl++
				r := o.Inconcl
				if len(r) > 48 {
					r = r[:48]
				}
				s.rec.Class("inconclusive:"+r, 1)
				if inconcl <= 3 {
					js, _ := json.Marshal(c)
					s.rec.Extra(fmt.Sprintf("inconclusive_example_%s_%d", l.Name, inconcl), map[string]interface{}{"why": o.Inconcl, "case": json.RawMessage(js)})
				}
				lastFail = nil
				return
			}
			if o.Fail != "" {
				js, _ := json.Marshal(c)
				lastFail = &failing{c, o, len(js)}
				if smallest == nil || lastFail.n < smallest.n {
					smallest = lastFail
				}
				rt.Fatalf("[%s] %s", o.Sig, o.Fail)
			}
			lastFail = nil
		})
	})
}

func (s *suite) finish() {
	if s.bad {
		s.t.Fail()
	}
}

// saveCorpus writes a case as a corpus/known-finding replay file (used by the
// helper test that regenerates corpus files; never by a check run).
func saveCorpus(prop, lane, name string, c interface{}, sig, msg string) string {
	js, _ := json.Marshal(c)
	b, _ := json.MarshalIndent(replayFile{Property: prop, Lane: lane, Sig: sig, Message: msg, Case: js}, "", " ")
	dir := filepath.Join(ev.Root(), "corpus", prop)
	_ = os.MkdirAll(dir, 0o755)
	p := filepath.Join(dir, name+".json")
	_ = os.WriteFile(p, b, 0o644)
	return p
}

func isReplay() bool { return os.Getenv("VERIF_REPLAY") != "" }

// fuzzViolation is used by native fuzz targets: it saves the replay file and
// prints the VIOLATION line (the fuzz engine's own crasher file is secondary).
func fuzzViolation(prop, lane string, c interface{}, o Outcome) {
	js, _ := json.Marshal(c)
	r := ev.New(prop, "")
	r.Violation(replayFile{Property: prop, Lane: lane, Sig: o.Sig, Message: o.Fail, Case: js})
}

// EnumLane is a bounded-exhaustive sub-check: the cases are the values At(0..N-1)
// of a finite, explicitly enumerated domain instead of draws from a generator.
// The thorough tier runs every index (split over shards by i mod nshards); the
// quick tier runs the first Head indexes (the short cases) and, of the rest, the
// residue class  i mod QuickStride == VERIF_SEED mod QuickStride,  so that the
// quick tier is a pure function of the seed and successive seeds cover the domain.
type EnumLane[C any] struct {
	Name        string
	N           int
	At          func(i int) C
	Run         func(C) Outcome
	Head        int // indexes below Head are always run
	QuickStride int // quick tier: 1/QuickStride of the indexes >= Head (0: all, <0: lane not run in the quick tier)
	ThorStride  int // thorough tier: 1/ThorStride of the indexes >= Head (0 or 1: all)
	Journal     bool
}

func runEnum[C any](s *suite, l EnumLane[C]) {
	if !wantLane(l.Name) {
		return
	}
	if rp := os.Getenv("VERIF_REPLAY"); rp != "" {
		runLane(s, Lane[C]{Name: l.Name, Run: l.Run})
		return
	}
	runLane(s, Lane[C]{Name: l.Name, Run: l.Run}) // corpus files of this lane, no search
	sh, ns := shard()
	if run := l.Run; run != nil {
		l.Run = func(c C) Outcome { return deadlockToFail(run(c)) }
	}
	stride := l.QuickStride
	if ev.Tier() == "thorough" {
		stride = l.ThorStride
	}
	if stride < 0 {
		return // not run in this tier
	}
	if stride < 1 {
		stride = 1
	}
	res := int(uint64(ev.Seed()) % uint64(stride))
	jpath := os.Getenv("VERIF_JOURNAL")
	ran, inconcl, k := 0, 0, 0
	for i := 0; i < l.N; i++ {
		if i >= l.Head && i%stride != res {
			continue
		}
		k++
		if k%ns != sh {
			continue
		}
		c := l.At(i)
		if l.Journal && jpath != "" {
			js, _ := json.Marshal(c)
			b, _ := json.Marshal(replayFile{Property: s.id, Lane: l.Name, Sig: "process-death", Message: "the test process died while this case was running", Case: js})
			_ = os.WriteFile(jpath, b, 0o644)
		}
		o := l.Run(c)
		ran++
		s.rec.Case(c, o.NonTrivial, append([]string{"lane:" + l.Name}, o.Classes...)...)
		if o.Inconcl != "" {
			inconcl++
			r := o.Inconcl
			if len(r) > 48 {
				r = r[:48]
			}
			s.rec.Class("inconclusive:"+r, 1)
			continue
		}
		if o.Fail != "" {
			// enumeration visits short cases first, so the first failure is already small
			s.violation(l.Name, c, o)
			s.t.Errorf("[%s] index %d: [%s] %s", l.Name, i, o.Sig, o.Fail)
			break
		}
	}
	if inconcl > 0 {
		s.rec.Class(l.Name+":inconclusive", int64(inconcl))
	}
	s.rec.Extra("enum_"+l.Name, map[string]interface{}{"domain_size": l.N, "always_run_below": l.Head, "stride": stride, "residue": res, "ran_in_this_shard": ran, "complete": stride == 1})
}
