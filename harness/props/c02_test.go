package props

import (
	"fmt"
	"strconv"
	"strings"
	"testing"
	"time"

	"github.com/dgrr/http2"
	"pgregory.net/rapid"

	"verif/harness/peer"
	"verif/harness/rawframe"
	"verif/harness/refhpack"
	"verif/harness/speer"
)

// C02 — client: each request is sent intact and its caller gets exactly its own response.

type c02Resp struct {
	Status   int              `json:"status"`
	Fields   []peer.FieldSpec `json:"fields,omitempty"`
	BodyLen  int              `json:"blen,omitempty"`
	Chunks   []int            `json:"chunks,omitempty"`
	Pads     []int            `json:"pads,omitempty"`
	Splits   []int            `json:"splits,omitempty"`
	SizeUpd  []int            `json:"sizeupd,omitempty"`
	Trailers []peer.FieldSpec `json:"trailers,omitempty"`
	PadHdr   int              `json:"padhdr,omitempty"`
	CL       bool             `json:"cl,omitempty"` // send content-length
}

type c02Case struct {
	Reqs  []speer.ReqSpec `json:"reqs"`
	Resps []c02Resp       `json:"resps"`
	Sched []int           `json:"sched"`
	Burst bool            `json:"burst,omitempty"`
	Win   uint32          `json:"win,omitempty"` // our SETTINGS_INITIAL_WINDOW_SIZE (0 default)
}

func clientOpts() http2.ClientOpts {
	return http2.ClientOpts{PingInterval: time.Hour, MaxResponseTime: -1}
}

// checkReceived compares the request the scripted server got on a stream with
// what the caller handed to the client.
func checkReceived(r speer.ReqSpec, g *peer.Got) string {
	if g == nil {
		return fmt.Sprintf("request %s never reached the server", r.Tag)
	}
	if g.HdrErr != "" {
		return fmt.Sprintf("request %s: its header block does not decode: %s", r.Tag, g.HdrErr)
	}
	if g.HdrBlocks != 1 || g.DataBefore {
		return fmt.Sprintf("request %s: %d header blocks on its stream", r.Tag, g.HdrBlocks)
	}
	if g.EndStream != 1 || g.AfterEnd != 0 {
		return fmt.Sprintf("request %s: END_STREAM seen %d times (%d frames after it); %d of %d body bytes arrived", r.Tag, g.EndStream, g.AfterEnd, len(g.Body), r.BodyLen)
	}
	if g.Rst {
		return fmt.Sprintf("request %s: the client reset the stream (%s)", r.Tag, peer.CodeName(g.RstCode))
	}
	want := map[string]string{":method": r.Method, ":path": r.Path, ":scheme": "https", ":authority": "example.com"}
	seenRegular := false
	var regular []refhpack.Field
	for _, f := range g.Fields {
		if strings.HasPrefix(f.Name, ":") {
			if seenRegular {
				return fmt.Sprintf("request %s: pseudo-header %s after a regular field", r.Tag, f.Name)
			}
			w, ok := want[f.Name]
			if !ok {
				return fmt.Sprintf("request %s: unexpected or duplicated pseudo-header %s", r.Tag, f.Name)
			}
			if w != f.Value {
				return fmt.Sprintf("request %s: %s is %q, the caller gave %q", r.Tag, f.Name, f.Value, w)
			}
			delete(want, f.Name)
			continue
		}
		seenRegular = true
		if f.Name != strings.ToLower(f.Name) {
			return fmt.Sprintf("request %s: field name %q is not lower-case", r.Tag, f.Name)
		}
		if connSpecific[f.Name] {
			return fmt.Sprintf("request %s: connection-specific field %q on the wire", r.Tag, f.Name)
		}
		regular = append(regular, f)
	}
	if len(want) != 0 {
		return fmt.Sprintf("request %s: pseudo-headers missing: %v", r.Tag, want)
	}
	var given []refhpack.Field
	var cookiesGiven, cookiesSeen []string
	for _, f := range r.Fields {
		if strings.EqualFold(f.Name, "cookie") {
			cookiesGiven = append(cookiesGiven, f.Value) // fasthttp keeps request cookies in one container
			continue
		}
		if !connSpecific[strings.ToLower(f.Name)] {
			given = append(given, refhpack.Field{Name: strings.ToLower(f.Name), Value: f.Value})
		}
	}
	for _, f := range regular {
		if f.Name == "cookie" {
			cookiesSeen = append(cookiesSeen, strings.Split(f.Value, "; ")...)
		}
	}
	{
		gs, ss := map[string]bool{}, map[string]bool{}
		for _, c := range cookiesGiven {
			gs[c[:strings.Index(c, "=")]] = true
		}
		for _, c := range cookiesSeen {
			if i := strings.Index(c, "="); i > 0 {
				ss[c[:i]] = true
			}
		}
		for k := range gs {
			if !ss[k] {
				return fmt.Sprintf("request %s: cookie %q given by the caller is not on the wire (%q)", r.Tag, k, cookiesSeen)
			}
		}
		for k := range ss {
			if !gs[k] {
				return fmt.Sprintf("request %s: cookie %q on the wire was never given", r.Tag, k)
			}
		}
	}
	skip := func(n string) bool { return n == "user-agent" || n == "content-length" || n == "cookie" }
	gm, wm := multiset(regular, skip), multiset(given, skip)
	for k, n := range wm {
		if gm[k] != n {
			return fmt.Sprintf("request %s: field %q given %d× by the caller, %d× on the wire", r.Tag, strings.Replace(k, "\x00", ": ", 1), n, gm[k])
		}
	}
	for k := range gm {
		if _, ok := wm[k]; !ok {
			name := k[:strings.Index(k, "\x00")]
			if name != "content-type" && name != "host" {
				return fmt.Sprintf("request %s: field %q on the wire was never given by the caller", r.Tag, strings.Replace(k, "\x00", ": ", 1))
			}
		}
	}
	body := peer.BodyFor(r.Tag, r.BodyLen)
	if r.Mode == 3 {
		body = nil
	}
	if string(g.Body) != string(body) {
		return fmt.Sprintf("request %s: %d body bytes on the wire, the caller gave %d (first difference at %d)", r.Tag, len(g.Body), len(body), firstDiff(g.Body, body))
	}
	for _, f := range regular {
		if f.Name == "content-length" && f.Value != strconv.Itoa(len(body)) {
			return fmt.Sprintf("request %s: content-length %q but the body has %d bytes", r.Tag, f.Value, len(body))
		}
	}
	return ""
}

// checkDelivered compares what a caller got with what the server sent on its stream.
func checkDelivered(tag string, rs c02Resp, call *speer.Call) string {
	if call.Err != nil {
		return fmt.Sprintf("request %s: the caller got error %q (retry=%v) although the server answered it completely", tag, call.Err, call.Retry)
	}
	if call.Status != rs.Status {
		return fmt.Sprintf("request %s: the caller got status %d, the server sent %d", tag, call.Status, rs.Status)
	}
	want := peer.BodyFor(tag, rs.BodyLen)
	if string(call.Body) != string(want) {
		return fmt.Sprintf("request %s: the caller got a body of %d bytes, the server sent %d on its stream (first difference at %d; starts %q)", tag, len(call.Body), len(want), firstDiff(call.Body, want), headStr(call.Body))
	}
	var sent []refhpack.Field
	for _, f := range rs.Fields {
		sent = append(sent, refhpack.Field{Name: f.F.Name, Value: f.F.Value})
	}
	wm, gm := multiset(sent, nil), multiset(call.Fields, nil)
	for k, n := range wm {
		if gm[k] != n {
			return fmt.Sprintf("request %s: response field %q sent %d× on its stream, the caller sees it %d×", tag, strings.Replace(k, "\x00", ": ", 1), n, gm[k])
		}
	}
	for _, f := range call.Fields {
		if _, ok := wm[f.Name+"\x00"+f.Value]; ok {
			continue
		}
		switch f.Name {
		case "content-length", "content-type":
		default:
			if len(rs.Trailers) > 0 && strings.HasPrefix(f.Name, "x-trailer") {
				continue
			}
			return fmt.Sprintf("request %s: the caller sees a response field the server never sent on its stream: %q: %q", tag, f.Name, f.Value)
		}
	}
	return ""
}

func headStr(b []byte) string {
	if len(b) > 24 {
		b = b[:24]
	}
	return string(b)
}

type c02Stream struct {
	tag    string
	id     uint32
	groups [][][]byte // frame groups still to send (each group written together)
	resp   c02Resp
}

func c02Run(c c02Case) Outcome {
	var plan speer.ConnPlan
	if c.Win != 0 {
		plan.Settings = [][2]uint32{{4, c.Win}}
	}
	env, err := speer.NewEnv(clientOpts(), plan)
	if err != nil {
		return Outcome{Inconcl: "cannot set the client up: " + err.Error()}
	}
	defer env.Close()
	sc := env.Conn(0)
	if sc == nil {
		return Outcome{Inconcl: "no connection"}
	}
	calls := make([]*speer.Call, len(c.Reqs))
	for i, r := range c.Reqs {
		calls[i] = env.Do(r)
	}
	stuck := func(where, d string) Outcome { return Outcome{Inconcl: "no quiescence " + where + ": " + d} }
	// let the requests arrive, granting window until every body is complete
	var got map[uint32]*peer.Got
	byTag := map[string]uint32{}
	for round := 0; round < 12; round++ {
		if ok, d := env.Quiesce(); !ok {
			return stuck("while the requests arrive", d)
		}
		got = peer.Assemble(sc.EventsCopy())
		need := false
		for id, g := range got {
			if g.EndStream == 0 && !g.Rst {
				need = true
				sw, _ := sc.Windows(id)
				if sw < 1<<20 {
					sc.SendWindowUpdate(id, uint32(1<<20-sw))
				}
			}
		}
		if !need && len(got) >= len(c.Reqs) {
			break
		}
		_, cw := sc.Windows(0)
		if cw < 1<<21 {
			sc.SendWindowUpdate(0, uint32(1<<21-cw))
		}
	}
	if f, cv := sc.Violations(); f != "" || cv != "" {
		return fail("flow-control", "%s%s", f, cv)
	}
	// map streams to requests by :path
	var ids []uint32
	for _, e := range sc.EventsCopy() {
		if e.Kind == "headers" {
			for _, f := range e.Fields {
				if f.Name == ":path" {
					tag := peer.TagOfURI(f.Value)
					if _, dup := byTag[tag]; dup {
						return fail("request-twice", "request %s arrived on two streams", tag)
					}
					byTag[tag] = e.Stream
					ids = append(ids, e.Stream)
				}
			}
		}
	}
	for i, id := range ids {
		if id%2 != 1 || (i > 0 && id <= ids[i-1]) {
			return fail("stream-ids", "stream ids in order of arrival are %v: not odd and strictly increasing", ids)
		}
	}
	for _, r := range c.Reqs {
		if msg := checkReceived(r, got[byTag[r.Tag]]); msg != "" {
			return fail("request", "%s (stream %d)", msg, byTag[r.Tag])
		}
	}
	// ---- responses
	streams := make([]*c02Stream, len(c.Reqs))
	for i, r := range c.Reqs {
		streams[i] = &c02Stream{tag: r.Tag, id: byTag[r.Tag], resp: c.Resps[i]}
	}
	build := func(s *c02Stream) {
		rs := s.resp
		list := []peer.FieldSpec{{F: refhpack.Field{Name: ":status", Value: strconv.Itoa(rs.Status)}, R: refhpack.Rep{Kind: 0, Alt: 2, NameIdx: true}}}
		list = append(list, rs.Fields...)
		if rs.CL {
			list = append(list, peer.FieldSpec{F: refhpack.Field{Name: "content-length", Value: strconv.Itoa(rs.BodyLen)}, R: refhpack.Rep{Kind: 2, NameIdx: true}})
		}
		block := sc.EncodeBlock(rs.SizeUpd, list)
		hasBody := rs.BodyLen > 0 || len(rs.Trailers) > 0
		s.groups = append(s.groups, peer.SplitBlock(s.id, block, rs.Splits, !hasBody, rs.PadHdr, false, 0, false, 0))
		if hasBody {
			for _, f := range peer.DataFrames(s.id, peer.BodyFor(s.tag, rs.BodyLen), rs.Chunks, rs.Pads, len(rs.Trailers) == 0) {
				s.groups = append(s.groups, [][]byte{f})
			}
			if len(rs.Trailers) > 0 {
				s.groups = append(s.groups, nil) // placeholder: the trailer block is encoded when it is sent
			}
		}
	}
	started := map[*c02Stream]bool{}
	for k := 0; ; k++ {
		var en []*c02Stream
		for _, s := range streams {
			if !started[s] || len(s.groups) > 0 {
				en = append(en, s)
			}
		}
		if len(en) == 0 {
			break
		}
		pick := 0
		if k < len(c.Sched) {
			pick = c.Sched[k]
		}
		s := en[pick%len(en)]
		if !started[s] {
			started[s] = true
			build(s) // header blocks are encoded in the order they are sent
		}
		g := s.groups[0]
		s.groups = s.groups[1:]
		if g == nil {
			tb := sc.EncodeBlock(nil, s.resp.Trailers)
			g = peer.SplitBlock(s.id, tb, nil, true, 0, false, 0, false, 0)
		}
		for _, f := range g {
			_ = sc.Write(f)
		}
		if len(s.groups) == 0 {
			sc.StreamDone(s.id)
		}
		if !c.Burst {
			if ok, d := env.Quiesce(); !ok {
				return stuck(fmt.Sprintf("after response action %d", k), d)
			}
		}
	}
	if ok, d := env.Quiesce(); !ok {
		return stuck("after the responses", d)
	}
	for i, call := range calls {
		if !call.Finished() {
			evs := sc.EventsCopy()
			dump := ""
			for _, g := range speer.ClientGoroutines() {
				dump += firstLines(g, 14) + "\n"
			}
			sent := ""
			for _, w := range sc.WroteLog() {
				if w.Stream == byTag[c.Reqs[i].Tag] {
					sent += fmt.Sprintf(" [type=%d flags=%#x len=%d]", w.Type, w.Flags, w.Len)
				}
			}
			return fail("caller-not-resolved", "request %s (stream %d): the server answered it completely but RoundTrip has not returned (client quiescent; events %d; goaways %v); frames written on its stream:%s\nclient goroutines:\n%s", c.Reqs[i].Tag, byTag[c.Reqs[i].Tag], len(evs), peer.GoAways(evs), sent, dump)
		}
		if call.Returns.Load() != 1 {
			return fail("resolved-twice", "request %s resolved %d times", c.Reqs[i].Tag, call.Returns.Load())
		}
		if msg := checkDelivered(c.Reqs[i].Tag, c.Resps[i], call); msg != "" {
			return fail("response", "%s (stream %d)", msg, byTag[c.Reqs[i].Tag])
		}
	}
	evs := sc.EventsCopy()
	if ga := peer.GoAways(evs); len(ga) > 0 {
		return fail("goaway", "the client sent GOAWAY(%s) on a connection to a conforming server", peer.CodeName(ga[0].Code))
	}
	if len(env.ConnsCopy()) != 1 {
		return fail("second-connection", "the client opened %d connections for %d requests", len(env.ConnsCopy()), len(c.Reqs))
	}
	nt := len(c.Reqs) >= 2
	cls := []string{fmt.Sprintf("reqs=%d", len(c.Reqs))}
	for i, r := range c.Reqs {
		if r.Mode != 0 {
			nt = true
			cls = append(cls, fmt.Sprintf("reqmode=%d", r.Mode))
		}
		if len(c.Resps[i].Splits) > 0 {
			nt = true
			cls = append(cls, "resp-split")
		}
	}
	if c.Burst {
		cls = append(cls, "burst")
	}
	return Outcome{NonTrivial: nt, Classes: cls}
}

// genPathSeg draws unreserved URI characters only (fasthttp re-encodes the rest).
func genPathSeg(t *rapid.T, label string, max int) string {
	const chars = "abcdefghijklmnopqrstuvwxyz0123456789-._~"
	n := rapid.IntRange(0, max).Draw(t, label+"-len")
	b := make([]byte, n)
	for i := range b {
		b[i] = chars[rapid.IntRange(0, len(chars)-1).Draw(t, label)]
	}
	return string(b)
}

func genClientReq(t *rapid.T, tag string, maxBody int) speer.ReqSpec {
	r := speer.ReqSpec{Tag: tag, Method: rapid.SampledFrom([]string{"GET", "POST", "PUT", "DELETE", "PATCH"}).Draw(t, "method"), Path: "/" + tag}
	if rapid.Bool().Draw(t, "longpath") {
		seg := genPathSeg(t, "seg", 40)
		if seg == "." || seg == ".." {
			// fasthttp normalises dot segments away before the client sees the URI ("/t1/.." becomes "/"), which
			// removes the tag the oracle finds the request by: the container's doing, outside the comparison
			seg = "dots"
		}
		r.Path += "/" + seg + "?q=" + genPathSeg(t, "q", 20)
	}
	n := rapid.IntRange(0, 8).Draw(t, "nf")
	for i := 0; i < n; i++ {
		var name string
		switch rapid.IntRange(0, 6).Draw(t, "fk") {
		case 0, 1:
			name = rapid.SampledFrom([]string{"Accept", "accept-language", "Cache-Control", "authorization", "Referer", "If-None-Match", "range", "via"}).Draw(t, "sname")
		case 2:
			name = rapid.SampledFrom([]string{"X-A", "x-b", "X_Under_Score", "x-trace-id", "X^caret"}).Draw(t, "cname")
		case 3:
			name = "x-" + genToken(t, "tok", 1, 16)
		case 4:
			name = rapid.SampledFrom([]string{"Connection", "Keep-Alive", "Proxy-Connection", "Upgrade"}).Draw(t, "cs")
		default:
			name = "Cookie"
		}
		value := genValueN(t, "v", genLen(t, "vlen", 200))
		if strings.EqualFold(name, "cookie") {
			value = genToken(t, "ck", 1, 5) + "=" + genToken(t, "cv", 1, 8)
		}
		if connSpecific[strings.ToLower(name)] {
			value = rapid.SampledFrom([]string{"close", "keep-alive", "timeout=5", "h2c"}).Draw(t, "csv")
		}
		r.Fields = append(r.Fields, refhpack.Field{Name: name, Value: value})
	}
	if r.Method != "GET" || rapid.IntRange(0, 4).Draw(t, "getbody") == 0 {
		r.Mode = rapid.SampledFrom([]int{0, 0, 1, 2, 3}).Draw(t, "mode")
		r.BodyLen = rapid.OneOf(rapid.IntRange(0, 300), rapid.IntRange(0, maxBody), rapid.SampledFrom([]int{16383, 16384, 16385, 65535, 65536})).Draw(t, "blen")
		if r.BodyLen > maxBody {
			r.BodyLen = maxBody
		}
		if r.Mode == 3 {
			r.BodyLen = 0
		}
		if r.Mode == 1 || r.Mode == 2 {
			nc := rapid.IntRange(0, 3).Draw(t, "nchunks")
			for i := 0; i < nc; i++ {
				r.Chunks = append(r.Chunks, rapid.SampledFrom([]int{1, 100, 5000, 16384, 20000}).Draw(t, "chunk"))
			}
			if r.BodyLen > 3000 {
				for i, ch := range r.Chunks {
					if ch == 1 {
						r.Chunks[i] = 700
					}
				}
			}
		}
	}
	return r
}

func genClientResp(t *rapid.T, tag string, maxBody int) c02Resp {
	rs := c02Resp{Status: rapid.OneOf(rapid.SampledFrom([]int{200, 201, 404, 500, 302}), rapid.IntRange(200, 599)).Draw(t, "status")}
	if rs.Status == 204 || rs.Status == 304 {
		rs.Status = 200
	}
	rs.Fields = append(rs.Fields, genFieldSpec(t, "x-tag", tag))
	n := rapid.IntRange(0, 8).Draw(t, "nrf")
	for i := 0; i < n; i++ {
		var name string
		switch rapid.IntRange(0, 3).Draw(t, "rfk") {
		case 0, 1:
			name = rapid.SampledFrom([]string{"cache-control", "etag", "vary", "location", "age", "allow", "link", "via", "expires", "last-modified", "x-frame-options"}).Draw(t, "rsn")
		case 2:
			name = rapid.SampledFrom(customNames).Draw(t, "rcn")
		default:
			name = "x-" + genToken(t, "rtok", 1, 20)
		}
		rs.Fields = append(rs.Fields, genFieldSpec(t, name, genValueN(t, "rv", genLen(t, "rvl", 300))))
	}
	for i := range rs.Fields {
		rs.Fields[i].F.Sensitive = false
	}
	rs.BodyLen = rapid.OneOf(rapid.IntRange(0, 300), rapid.IntRange(0, maxBody), rapid.SampledFrom([]int{0, 16384, 65535})).Draw(t, "rblen")
	if rs.BodyLen > maxBody {
		rs.BodyLen = maxBody
	}
	rs.CL = rapid.Bool().Draw(t, "cl")
	nc := rapid.IntRange(0, 3).Draw(t, "nchunks")
	for i := 0; i < nc; i++ {
		rs.Chunks = append(rs.Chunks, rapid.OneOf(rapid.SampledFrom([]int{0, 1, 100, 16128}), rapid.IntRange(1, 9000)).Draw(t, "chunk"))
	}
	if rs.BodyLen > 3000 {
		for i, ch := range rs.Chunks {
			if ch < 100 {
				rs.Chunks[i] = 900
			}
		}
	}
	np := rapid.IntRange(0, 2).Draw(t, "npads")
	for i := 0; i < np; i++ {
		rs.Pads = append(rs.Pads, rapid.SampledFrom([]int{0, 1, 10, 256}).Draw(t, "pad"))
	}
	ns := rapid.IntRange(0, 3).Draw(t, "nsplits")
	for i := 0; i < ns; i++ {
		rs.Splits = append(rs.Splits, rapid.IntRange(0, 2000).Draw(t, "split"))
	}
	if rapid.IntRange(0, 4).Draw(t, "padhdr") == 0 {
		rs.PadHdr = 1 + rapid.SampledFrom([]int{0, 5, 255}).Draw(t, "padhdrlen")
	}
	if rapid.IntRange(0, 7).Draw(t, "su") == 0 {
		rs.SizeUpd = []int{rapid.SampledFrom([]int{0, 100, 4096}).Draw(t, "suv")}
	}
	if rs.BodyLen > 0 && rapid.IntRange(0, 4).Draw(t, "trailers") == 0 {
		rs.Trailers = []peer.FieldSpec{genFieldSpec(t, "x-trailer-0", genValueN(t, "tv", genLen(t, "tvl", 40)))}
		rs.Trailers[0].F.Sensitive = false
	}
	return rs
}

func c02Gen(t *rapid.T) c02Case {
	n := rapid.IntRange(1, 6).Draw(t, "nreq")
	c := c02Case{Burst: rapid.IntRange(0, 3).Draw(t, "burst") == 0}
	maxBody := rapid.SampledFrom([]int{300, 3000, 70000}).Draw(t, "maxbody")
	maxResp := rapid.SampledFrom([]int{300, 3000, 70000}).Draw(t, "maxresp")
	for i := 0; i < n; i++ {
		tag := fmt.Sprintf("t%d", i)
		c.Reqs = append(c.Reqs, genClientReq(t, tag, maxBody))
		c.Resps = append(c.Resps, genClientResp(t, tag, maxResp))
	}
	c.Sched = rapid.SliceOfN(rapid.IntRange(0, 23), 0, 60).Draw(t, "sched")
	if rapid.IntRange(0, 4).Draw(t, "win") == 0 {
		c.Win = rapid.SampledFrom([]uint32{1, 100, 16383, 1 << 20}).Draw(t, "winval")
	}
	return c
}

func TestC02(t *testing.T) {
	s := newSuite(t, "C02",
		"1..6 concurrent RoundTrips through one HostClient/connection (methods, paths, 0..8 fields incl. mixed-case names, '_' and '^' in names, cookies and connection-specific fields that must be dropped; no body / buffered / SetBodyStream declared, unknown (-1) or empty, bodies up to 70000 with generated reader chunking) against a scripted TLS server in memory that answers each stream with a generated response (status, 1..9 fields carrying the request's tag, body up to 70000 also tagged) encoded by the reference HPACK encoder with per-field representation choices, header blocks cut into HEADERS+CONTINUATION at arbitrary octets, padded HEADERS/DATA, empty DATA frames, optional size update; response frames of different streams interleaved by a generated schedule, lock-step (client quiescence by hook counters and goroutine states) or burst. Oracle at the server: odd strictly increasing fresh stream ids, pseudo-headers and field multiset equal to what the caller gave minus connection-specific fields, body exact, END_STREAM once. At each caller: err==nil, status, every field and the body of exactly its own stream. Non-trivial = >=2 requests, or a streamed request body, or a split response block; distinct by case hash.",
		"request/response field values stay inside the field-value grammar; user-agent/content-type/content-length are fasthttp singletons and compared loosely")
	defer s.finish()
	runLane(s, Lane[c02Case]{Name: "exchange", Journal: true, Quick: 600, Thor: 30000, Gen: c02Gen, Run: c02Run})
}

var _ = rawframe.Data
