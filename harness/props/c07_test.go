package props

import (
	"fmt"
	"testing"
	"time"

	"github.com/dgrr/http2"
	"pgregory.net/rapid"

	"verif/harness/peer"
	"verif/harness/rawframe"
	"verif/harness/refhpack"
	"verif/harness/speer"
)

// C07 — the client never sends DATA beyond the server's windows, and finishes.

type c07Act struct {
	Op string `json:"op"` // wus, wuc, setwin, setmf
	I  int    `json:"i"`
	N  uint32 `json:"n"`
}

type c07Case struct {
	InitWin  uint32          `json:"initwin"`  // server's first SETTINGS_INITIAL_WINDOW_SIZE (65535 = not sent)
	MaxFrame uint32          `json:"maxframe"` // server's first SETTINGS_MAX_FRAME_SIZE (0 = not sent)
	Ups      []speer.ReqSpec `json:"ups"`
	Acts     []c07Act        `json:"acts"`
	// SlowHeaders: the last upload is started while the server is not reading and the client's socket buffer is
	// 8 octets, so the client's write loop is stopped in the middle of writing that request's HEADERS; a SETTINGS
	// frame with INITIAL_WINDOW_SIZE = SlowWin arrives and is applied meanwhile; then the server reads again. The
	// window the upload starts with must be the new one (a schedule a few instructions wide without the stall).
	SlowHeaders bool   `json:"slowheaders,omitempty"`
	SlowWin     uint32 `json:"slowwin,omitempty"`
}

func c07Run(c c07Case) Outcome {
	var plan speer.ConnPlan
	if c.InitWin != 65535 {
		plan.Settings = append(plan.Settings, [2]uint32{4, c.InitWin})
	}
	if c.MaxFrame != 0 {
		plan.Settings = append(plan.Settings, [2]uint32{5, c.MaxFrame})
	}
	env, err := speer.NewEnv(clientOpts(), plan)
	if err != nil {
		return Outcome{Inconcl: "cannot set the client up: " + err.Error()}
	}
	defer env.Close()
	sc := env.Conn(0)
	if sc == nil {
		return Outcome{Inconcl: "no connection"}
	}
	calls := make([]*speer.Call, len(c.Ups))
	slowInconcl := ""
	for i, u := range c.Ups {
		if c.SlowHeaders && i == len(c.Ups)-1 && u.BodyLen > 0 && u.Mode != 3 {
			if ok, d := env.Quiesce(); !ok {
				return Outcome{Inconcl: "no quiescence before the slow request: " + d}
			}
			sc.SrvRaw.HoldReads(true)
			sc.CliRaw.SetWriteLimit(8)
			acksBefore := sc.Stats.Ev[http2.VerifEvOutQueued].Load()
			calls[i] = env.Do(u)
			for dl := time.Now().Add(2 * time.Second); !sc.CliRaw.WriterBlocked(); time.Sleep(100 * time.Microsecond) {
				if time.Now().After(dl) {
					slowInconcl = "the client's write did not block"
					break
				}
			}
			if slowInconcl == "" {
				sc.SendSettings([][2]uint32{{4, c.SlowWin}})
				// applied once the client has queued its acknowledgement (the write loop cannot send it yet)
				for dl := time.Now().Add(2 * time.Second); sc.Stats.Ev[http2.VerifEvOutQueued].Load() == acksBefore; time.Sleep(100 * time.Microsecond) {
					if time.Now().After(dl) {
						slowInconcl = "the client did not take the SETTINGS frame in"
						break
					}
				}
			}
			sc.CliRaw.SetWriteLimit(0)
			sc.SrvRaw.HoldReads(false)
			if slowInconcl != "" {
				return Outcome{Inconcl: "slow-headers set-up: " + slowInconcl}
			}
			continue
		}
		calls[i] = env.Do(u)
	}
	idOf := map[string]uint32{}
	blockedOnce, changedMid := false, false
	answered := map[uint32]bool{}
	check := func(where string) *Outcome {
		if ok, d := env.Quiesce(); !ok {
			return &Outcome{Inconcl: "no quiescence " + where + ": " + d}
		}
		if f, cv := sc.Violations(); f != "" || cv != "" {
			o := fail("window-exceeded", "%s: %s%s", where, f, cv)
			return &o
		}
		evs := sc.EventsCopy()
		if ga := peer.GoAways(evs); len(ga) > 0 || peer.HasEOF(evs) {
			o := fail("connection-ended", "%s: the client ended the connection (goaways %v)", where, ga)
			return &o
		}
		for _, e := range evs {
			if e.Kind == "headers" {
				for _, f := range e.Fields {
					if f.Name == ":path" {
						idOf[peer.TagOfURI(f.Value)] = e.Stream
					}
				}
			}
		}
		got := peer.Assemble(evs)
		for _, u := range c.Ups {
			id, ok := idOf[u.Tag]
			if !ok {
				o := fail("request-missing", "%s: request %s has not reached the server although the client is quiescent", where, u.Tag)
				return &o
			}
			g := got[id]
			size := u.BodyLen
			if u.Mode == 3 {
				size = 0
			}
			if g.Rst {
				o := fail("client-reset", "%s: the client reset stream %d (%s)", where, id, peer.CodeName(g.RstCode))
				return &o
			}
			if g.EndStream > 0 {
				if !answered[id] {
					// answer it: a tiny response
					answered[id] = true
					blk := sc.EncodeBlock(nil, []peer.FieldSpec{{F: refhpack.Field{Name: ":status", Value: "200"}, R: refhpack.Rep{Kind: 0}}})
					_ = sc.Write(peer.SplitBlock(id, blk, nil, true, 0, false, 0, false, 0)[0])
					sc.StreamDone(id)
				}
				continue
			}
			sw, cw := sc.Windows(id)
			if len(g.Body) < size && sw > 0 && cw > 0 {
				o := fail("stalled", "%s: upload %s (stream %d) has sent %d of %d bytes, its window is %d and the connection window %d (both positive), yet the client is idle", where, u.Tag, id, len(g.Body), size, sw, cw)
				return &o
			}
			if len(g.Body) >= size && g.EndStream == 0 {
				o := fail("no-end-stream", "%s: upload %s (stream %d) has sent all %d bytes but no END_STREAM, and the client is idle", where, u.Tag, id, size)
				return &o
			}
			blockedOnce = true
		}
		return nil
	}
	if o := check("after the requests"); o != nil {
		return *o
	}
	n := len(c.Ups)
	for k, a := range c.Acts {
		u := c.Ups[a.I%n]
		id := idOf[u.Tag]
		where := ""
		open := !answered[id]
		switch a.Op {
		case "wus":
			if !open {
				continue
			}
			sw, _ := sc.Windows(id)
			nn := a.N
			if int64(nn)+sw > 1<<31-1 {
				continue
			}
			sc.SendWindowUpdate(id, nn)
			where = fmt.Sprintf("action %d: WINDOW_UPDATE(stream %d, %d)", k, id, nn)
		case "wuc":
			_, cw := sc.Windows(0)
			if int64(a.N)+cw > 1<<31-1 {
				continue
			}
			sc.SendWindowUpdate(0, a.N)
			where = fmt.Sprintf("action %d: WINDOW_UPDATE(connection, %d)", k, a.N)
		case "setwin":
			ok := true
			for _, uu := range c.Ups {
				if sid := idOf[uu.Tag]; !answered[sid] {
					sw, _ := sc.Windows(sid)
					if sw+int64(a.N)-sc.InitWin > 1<<31-1 {
						ok = false
					}
					changedMid = true
				}
			}
			if !ok || a.N > 1<<31-1 {
				continue
			}
			sc.SendSettings([][2]uint32{{4, a.N}})
			where = fmt.Sprintf("action %d: SETTINGS_INITIAL_WINDOW_SIZE=%d", k, a.N)
		case "setmf":
			if a.N < 16384 || a.N > 1<<24-1 {
				continue
			}
			sc.SendSettings([][2]uint32{{5, a.N}})
			changedMid = true
			where = fmt.Sprintf("action %d: SETTINGS_MAX_FRAME_SIZE=%d", k, a.N)
		default:
			continue
		}
		if o := check(where); o != nil {
			return *o
		}
	}
	for round := 0; round < 14; round++ {
		if o := check(fmt.Sprintf("final phase, round %d", round)); o != nil {
			return *o
		}
		if len(answered) == n {
			break
		}
		for _, u := range c.Ups {
			id := idOf[u.Tag]
			if !answered[id] {
				sw, _ := sc.Windows(id)
				if sw < 1<<20 {
					sc.SendWindowUpdate(id, uint32(1<<20-sw))
				}
			}
		}
		_, cw := sc.Windows(0)
		if cw < 1<<21 {
			sc.SendWindowUpdate(0, uint32(1<<21-cw))
		}
	}
	if ok, d := env.Quiesce(); !ok {
		return Outcome{Inconcl: "no quiescence at the end: " + d}
	}
	got := peer.Assemble(sc.EventsCopy())
	for i, u := range c.Ups {
		if msg := checkReceived(u, got[idOf[u.Tag]]); msg != "" {
			return fail("incomplete", "after generous grants: %s", msg)
		}
		if !calls[i].Finished() || calls[i].Err != nil || calls[i].Status != 200 {
			return fail("caller", "upload %s was received completely and answered with 200, but its caller has finished=%v err=%v status=%d", u.Tag, calls[i].Finished(), calls[i].Err, calls[i].Status)
		}
	}
	cls := []string{fmt.Sprintf("initwin=%d", c.InitWin)}
	if blockedOnce {
		cls = append(cls, "blocked")
	}
	if changedMid {
		cls = append(cls, "settings-mid-upload")
	}
	return Outcome{NonTrivial: blockedOnce || changedMid, Classes: cls}
}

func c07Gen(t *rapid.T) c07Case {
	c := c07Case{InitWin: rapid.SampledFrom([]uint32{0, 1, 100, 16383, 65535, 65535, 1 << 20}).Draw(t, "initwin"),
		MaxFrame: rapid.SampledFrom([]uint32{0, 0, 16384, 16385, 65536, 1<<24 - 1}).Draw(t, "maxframe")}
	n := rapid.IntRange(1, 4).Draw(t, "n")
	for i := 0; i < n; i++ {
		u := speer.ReqSpec{Tag: fmt.Sprintf("t%d", i), Method: "POST", Path: fmt.Sprintf("/t%d", i)}
		u.Mode = rapid.SampledFrom([]int{0, 0, 1, 2, 3}).Draw(t, "mode")
		u.BodyLen = rapid.OneOf(rapid.IntRange(0, 500), rapid.IntRange(0, 300000), rapid.SampledFrom([]int{16384, 65535, 65536, 131072})).Draw(t, "size")
		if u.Mode == 3 {
			u.BodyLen = 0
		}
		if u.Mode == 1 || u.Mode == 2 {
			nc := rapid.IntRange(0, 2).Draw(t, "nchunks")
			for j := 0; j < nc; j++ {
				u.Chunks = append(u.Chunks, rapid.SampledFrom([]int{700, 5000, 16384, 70000}).Draw(t, "chunk"))
			}
		}
		c.Ups = append(c.Ups, u)
	}
	na := rapid.IntRange(0, 25).Draw(t, "nacts")
	for i := 0; i < na; i++ {
		a := c07Act{Op: rapid.SampledFrom([]string{"wus", "wus", "wus", "wuc", "wuc", "setwin", "setmf"}).Draw(t, "op"), I: rapid.IntRange(0, 3).Draw(t, "i")}
		switch a.Op {
		case "wus", "wuc":
			a.N = rapid.OneOf(rapid.SampledFrom([]uint32{1, 2, 100, 16383, 16384, 16385, 65535, 1 << 20}), rapid.Uint32Range(1, 100000)).Draw(t, "n")
		case "setwin":
			a.N = rapid.OneOf(rapid.SampledFrom([]uint32{0, 1, 100, 16384, 65535, 65536, 1 << 20}), rapid.Uint32Range(0, 200000)).Draw(t, "v")
		case "setmf":
			a.N = rapid.SampledFrom([]uint32{16384, 16385, 20000, 65536, 1 << 20, 1<<24 - 1}).Draw(t, "mf")
		}
		c.Acts = append(c.Acts, a)
	}
	if rapid.IntRange(0, 3).Draw(t, "slowheaders") == 0 {
		c.SlowHeaders = true
		c.SlowWin = rapid.SampledFrom([]uint32{0, 1, 1000, 16384, 65535, 100000, 1 << 20}).Draw(t, "slowwin")
	}
	return c
}

func TestC07(t *testing.T) {
	s := newSuite(t, "C07",
		"1..4 concurrent uploads through RoundTrip (buffered / SetBodyStream declared / unknown / empty, 0..300000 bytes, generated reader chunking) to a scripted TLS server that opens with SETTINGS_INITIAL_WINDOW_SIZE from {0,1,100,16383,65535,1MiB} and SETTINGS_MAX_FRAME_SIZE from {default,16384,16385,65536,2^24-1}, then a generated schedule of up to 25 actions {WINDOW_UPDATE(stream), WINDOW_UPDATE(connection), SETTINGS_INITIAL_WINDOW_SIZE up/down, SETTINGS_MAX_FRAME_SIZE up/down}, lock-step with client quiescence (hook counters + caller goroutine states) after each. Oracle: the server's ledgers never go negative on a DATA frame and no DATA frame exceeds the MAX_FRAME_SIZE in force (raised at once, lowered once acknowledged); at quiescence no upload with bytes left has both windows positive; after generous grants every body arrived byte-exact with END_STREAM once and every caller got its 200. Non-trivial = an upload blocked at least once, or a SETTINGS change mid-upload; distinct by case hash.")
	defer s.finish()
	runLane(s, Lane[c07Case]{Name: "uploads", Journal: true, Quick: 600, Thor: 60000, Gen: c07Gen, Run: c07Run})
}

var _ = rawframe.Data
