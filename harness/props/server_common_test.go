package props

import (
	"fmt"
	"sort"
	"strconv"
	"strings"

	"pgregory.net/rapid"

	"verif/harness/peer"
	"verif/harness/refhpack"
)

// ---- generators for well-formed requests / responses -----------------------

var reqMethods = []string{"GET", "POST", "PUT", "DELETE", "PATCH", "OPTIONS", "HEAD"}

func genFieldSpec(t *rapid.T, name, value string) peer.FieldSpec {
	return peer.FieldSpec{F: refhpack.Field{Name: name, Value: value}, R: genRep(t, "rep")}
}

// genRegularFields draws 0..max regular request fields that fasthttp stores
// verbatim (no singleton / special-cased names except the listed single uses).
func genRegularFields(t *rapid.T, max int, vmax int) []peer.FieldSpec {
	n := rapid.IntRange(0, max).Draw(t, "nfields")
	var out []peer.FieldSpec
	usedUA, usedCT := false, false
	for i := 0; i < n; i++ {
		var name string
		switch rapid.IntRange(0, 9).Draw(t, "fk") {
		case 0, 1, 2:
			name = rapid.SampledFrom(plainStaticNames).Draw(t, "sname")
		case 3, 4:
			name = rapid.SampledFrom(customNames).Draw(t, "cname")
		case 5:
			name = "x-" + genToken(t, "tok", 1, 24)
		case 6:
			name = "cookie"
		case 7:
			if !usedUA {
				usedUA = true
				name = "user-agent"
			} else {
				name = "x-ua"
			}
		case 8:
			if !usedCT {
				usedCT = true
				name = "content-type"
			} else {
				name = "x-ct"
			}
		default:
			name = "te"
		}
		var value string
		switch name {
		case "cookie":
			value = genToken(t, "ck", 1, 6) + "=" + genToken(t, "cv", 1, 12)
		case "te":
			value = "trailers"
		default:
			value = genValueN(t, "v", genLen(t, "vlen", vmax))
			if (name == "user-agent" || name == "content-type") && value == "" {
				value = "v"
			}
		}
		fs := genFieldSpec(t, name, value)
		if rapid.IntRange(0, 19).Draw(t, "sens") == 0 {
			fs.F.Sensitive = true
		}
		out = append(out, fs)
	}
	return out
}

func genReq(t *rapid.T, tag string, maxBody int) peer.Req {
	r := peer.Req{Tag: tag, Method: rapid.SampledFrom(reqMethods).Draw(t, "method"), Scheme: rapid.SampledFrom([]string{"https", "http"}).Draw(t, "scheme")}
	r.Path = "/" + tag
	switch rapid.IntRange(0, 4).Draw(t, "pathkind") {
	case 1:
		r.Path += "/" + genToken(t, "seg", 0, 20)
	case 2:
		r.Path += "/a/../b%20c?x=" + genToken(t, "q", 0, 10)
	case 3:
		r.Path += "?" + genToken(t, "q", 1, 200)
	}
	if rapid.IntRange(0, 9).Draw(t, "noauth") != 0 {
		r.Auth = rapid.SampledFrom([]string{"example.com", "localhost:8443", "a.b-c.example:1"}).Draw(t, "auth")
	}
	for i := 0; i < 4; i++ {
		r.PseudoRep = append(r.PseudoRep, genRep(t, "prep"))
	}
	r.Order = rapid.Permutation([]int{0, 1, 2, 3}).Draw(t, "order")
	r.Fields = genRegularFields(t, 12, 300)
	if r.Method != "HEAD" && r.Method != "GET" && rapid.Bool().Draw(t, "hasbody") || rapid.IntRange(0, 5).Draw(t, "getbody") == 0 {
		r.BodyLen = rapid.OneOf(rapid.IntRange(0, 300), rapid.IntRange(0, maxBody), rapid.SampledFrom([]int{1, 16383, 16384, 16385})).Draw(t, "blen")
		if r.BodyLen > maxBody {
			r.BodyLen = maxBody
		}
		r.DeclareCL = rapid.Bool().Draw(t, "cl")
		nc := rapid.IntRange(0, 4).Draw(t, "nchunks")
		for i := 0; i < nc; i++ {
			r.Chunks = append(r.Chunks, rapid.OneOf(rapid.SampledFrom([]int{0, 1, 100, 16128}), rapid.IntRange(0, 5000)).Draw(t, "chunk"))
		}
		np := rapid.IntRange(0, 3).Draw(t, "npads")
		for i := 0; i < np; i++ {
			r.PadData = append(r.PadData, rapid.SampledFrom([]int{0, 0, 1, 2, 10, 256}).Draw(t, "pad"))
		}
		if rapid.IntRange(0, 3).Draw(t, "trailers") == 0 {
			nt := rapid.IntRange(1, 3).Draw(t, "ntr")
			for i := 0; i < nt; i++ {
				r.Trailers = append(r.Trailers, genFieldSpec(t, "x-trailer-"+strconv.Itoa(i), genValueN(t, "tv", genLen(t, "tvl", 60))))
			}
			nts := rapid.IntRange(0, 2).Draw(t, "ntrsplits")
			for i := 0; i < nts; i++ {
				r.TrSplits = append(r.TrSplits, rapid.IntRange(0, 1000).Draw(t, "trsplit"))
			}
		}
	}
	ns := rapid.IntRange(0, 4).Draw(t, "nsplits")
	for i := 0; i < ns; i++ {
		r.Splits = append(r.Splits, rapid.IntRange(0, 4000).Draw(t, "split"))
	}
	if rapid.IntRange(0, 3).Draw(t, "padhdr") == 0 {
		r.PadHdr = 1 + rapid.SampledFrom([]int{0, 1, 7, 255}).Draw(t, "padhdrlen")
	}
	if rapid.IntRange(0, 3).Draw(t, "prio") == 0 {
		r.Prio = true
		r.Dep = uint32(rapid.SampledFrom([]int{0, 1, 3, 5, 99, 2}).Draw(t, "dep"))
		r.Excl = rapid.Bool().Draw(t, "excl")
		r.Weight = rapid.Byte().Draw(t, "weight")
	}
	if rapid.IntRange(0, 7).Draw(t, "sizeupd") == 0 {
		r.SizeUpd = []int{rapid.SampledFrom([]int{0, 100, 4096, 2000}).Draw(t, "su")}
		if rapid.Bool().Draw(t, "su2") {
			r.SizeUpd = append(r.SizeUpd, 4096)
		}
	}
	return r
}

func genResp(t *rapid.T, maxBody int) peer.Resp {
	r := peer.Resp{Status: rapid.OneOf(rapid.SampledFrom([]int{200, 201, 206, 400, 404, 500, 599}), rapid.IntRange(200, 599)).Draw(t, "status")}
	if r.Status == 204 || r.Status == 304 {
		r.Status = 200
	}
	n := rapid.IntRange(0, 8).Draw(t, "nrf")
	ck := 0
	for i := 0; i < n; i++ {
		var name, value string
		switch rapid.IntRange(0, 4).Draw(t, "rfk") {
		case 0, 1:
			name = rapid.SampledFrom([]string{"cache-control", "etag", "vary", "location", "age", "allow", "link", "via", "www-authenticate", "accept-ranges", "expires", "last-modified", "retry-after"}).Draw(t, "rsn")
		case 2:
			name = rapid.SampledFrom(customNames).Draw(t, "rcn")
		case 3:
			name = "x-" + genToken(t, "rtok", 1, 20)
		default:
			name = "set-cookie"
		}
		if name == "set-cookie" {
			ck++
			value = fmt.Sprintf("c%d=%s", ck, genToken(t, "cv", 1, 10))
		} else {
			value = genValueN(t, "rv", genLen(t, "rvl", 300))
		}
		r.Fields = append(r.Fields, refhpack.Field{Name: name, Value: value})
	}
	r.Mode = rapid.SampledFrom([]int{0, 0, 1, 2, 3}).Draw(t, "mode")
	r.BodyLen = rapid.OneOf(rapid.IntRange(0, 200), rapid.IntRange(0, maxBody), rapid.SampledFrom([]int{0, 1, 16383, 16384, 16385, 32768, 65535, 65536})).Draw(t, "rblen")
	if r.BodyLen > maxBody {
		r.BodyLen = maxBody
	}
	if r.Mode == 3 {
		r.BodyLen = 0
	}
	if r.Mode != 0 {
		nc := rapid.IntRange(0, 3).Draw(t, "nrchunks")
		for i := 0; i < nc; i++ {
			r.Chunks = append(r.Chunks, rapid.OneOf(rapid.SampledFrom([]int{1, 100, 16384, 0}), rapid.IntRange(1, 20000)).Draw(t, "rchunk"))
		}
		r.EOFWith = rapid.Bool().Draw(t, "eofwith")
	}
	return r
}

// ---- the exchange oracle ---------------------------------------------------

func multiset(fs []refhpack.Field, skip func(name string) bool) map[string]int {
	m := map[string]int{}
	for _, f := range fs {
		n := strings.ToLower(f.Name)
		if skip != nil && skip(n) {
			continue
		}
		m[n+"\x00"+f.Value]++
	}
	return m
}

func msDiff(want, got map[string]int) string {
	var d []string
	for k, n := range want {
		if got[k] != n {
			d = append(d, fmt.Sprintf("%q sent %d× seen %d×", strings.Replace(k, "\x00", ": ", 1), n, got[k]))
		}
	}
	for k, n := range got {
		if _, ok := want[k]; !ok {
			d = append(d, fmt.Sprintf("%q sent 0× seen %d×", strings.Replace(k, "\x00", ": ", 1), n))
		}
	}
	sort.Strings(d)
	if len(d) > 4 {
		d = d[:4]
	}
	return strings.Join(d, "; ")
}

// checkSeen compares what the handler saw with what was sent.
func checkSeen(r peer.Req, seen []peer.Seen) string {
	var mine []peer.Seen
	for _, s := range seen {
		if s.Tag == r.Tag {
			mine = append(mine, s)
		}
	}
	if len(mine) != 1 {
		return fmt.Sprintf("handler ran %d times for request %s (want exactly once)", len(mine), r.Tag)
	}
	s := mine[0]
	if s.Method != r.Method {
		return fmt.Sprintf("request %s: handler saw method %q, sent %q", r.Tag, s.Method, r.Method)
	}
	if s.URI != r.Path {
		return fmt.Sprintf("request %s: handler saw path %q, sent %q", r.Tag, s.URI, r.Path)
	}
	if r.Auth != "" && s.Host != r.Auth {
		return fmt.Sprintf("request %s: handler saw authority %q, sent %q", r.Tag, s.Host, r.Auth)
	}
	body := peer.BodyFor(r.Tag, r.BodyLen)
	if string(s.Body) != string(body) {
		return fmt.Sprintf("request %s: handler saw a body of %d bytes, sent %d (first difference at %d)", r.Tag, len(s.Body), len(body), firstDiff(s.Body, body))
	}
	// regular fields (+ trailers, which the server appends to the header list)
	var sent []refhpack.Field
	var cookies []string
	for _, f := range append(append([]peer.FieldSpec{}, r.Fields...), r.Trailers...) {
		if f.F.Name == "cookie" {
			cookies = append(cookies, f.F.Value)
			continue
		}
		sent = append(sent, refhpack.Field{Name: f.F.Name, Value: f.F.Value})
	}
	if r.DeclareCL {
		sent = append(sent, refhpack.Field{Name: "content-length", Value: strconv.Itoa(r.BodyLen)})
	}
	var seenCookie []string
	var got []refhpack.Field
	for _, f := range s.Fields {
		switch f.Name {
		case "host":
			continue
		case "cookie":
			for _, p := range strings.Split(f.Value, "; ") {
				seenCookie = append(seenCookie, p)
			}
			continue
		}
		got = append(got, refhpack.Field{Name: f.Name, Value: f.Value})
	}
	if d := msDiff(multiset(sent, nil), multiset(got, nil)); d != "" {
		return fmt.Sprintf("request %s: header fields differ: %s", r.Tag, d)
	}
	sort.Strings(cookies)
	sort.Strings(seenCookie)
	if strings.Join(cookies, "; ") != strings.Join(seenCookie, "; ") {
		return fmt.Sprintf("request %s: cookies differ: sent %q seen %q", r.Tag, cookies, seenCookie)
	}
	return ""
}

func firstDiff(a, b []byte) int {
	for i := 0; i < len(a) && i < len(b); i++ {
		if a[i] != b[i] {
			return i
		}
	}
	if len(a) < len(b) {
		return len(a)
	}
	return len(b)
}

var connSpecific = map[string]bool{"connection": true, "keep-alive": true, "proxy-connection": true, "transfer-encoding": true, "upgrade": true}

// checkGot compares the response received on a stream with what the handler produced.
func checkGot(tag string, rs peer.Resp, g *peer.Got) string {
	if g == nil {
		return fmt.Sprintf("request %s: no response frames at all on its stream", tag)
	}
	if g.Rst {
		return fmt.Sprintf("request %s: stream was reset by the server with %s", tag, peer.CodeName(g.RstCode))
	}
	if g.HdrErr != "" {
		return fmt.Sprintf("request %s: response header block does not decode: %s", tag, g.HdrErr)
	}
	if g.DataBefore {
		return fmt.Sprintf("request %s: DATA arrived before HEADERS", tag)
	}
	if g.HdrBlocks != 1 {
		return fmt.Sprintf("request %s: %d header blocks on the response stream (want 1)", tag, g.HdrBlocks)
	}
	if g.EndStream != 1 {
		return fmt.Sprintf("request %s: END_STREAM seen %d times on the response (status %q, %d body bytes of %d received)", tag, g.EndStream, g.Status, len(g.Body), rs.BodyLen)
	}
	if g.AfterEnd != 0 {
		return fmt.Sprintf("request %s: %d frames after END_STREAM", tag, g.AfterEnd)
	}
	st := rs.Status
	if st == 0 {
		st = 200
	}
	if g.Status != strconv.Itoa(st) {
		return fmt.Sprintf("request %s: status %q, handler set %d", tag, g.Status, st)
	}
	want := peer.BodyFor(tag, rs.BodyLen)
	if string(g.Body) != string(want) {
		return fmt.Sprintf("request %s: response body has %d bytes, handler produced %d (first difference at %d)", tag, len(g.Body), len(want), firstDiff(g.Body, want))
	}
	wm := multiset(rs.Fields, nil)
	gm := multiset(g.Fields, nil)
	for k, n := range wm {
		if gm[k] != n {
			return fmt.Sprintf("request %s: response field %q set %d× by the handler, received %d×", tag, strings.Replace(k, "\x00", ": ", 1), n, gm[k])
		}
	}
	for _, f := range g.Fields {
		if connSpecific[f.Name] {
			return fmt.Sprintf("request %s: connection-specific field %q in the response", tag, f.Name)
		}
		if f.Name != strings.ToLower(f.Name) {
			return fmt.Sprintf("request %s: response field name %q is not lower-case", tag, f.Name)
		}
		if _, ok := wm[f.Name+"\x00"+f.Value]; ok {
			continue
		}
		switch f.Name {
		case "content-type", "server", "date":
		case "content-length":
			if f.Value != strconv.Itoa(len(want)) {
				return fmt.Sprintf("request %s: content-length %q but the body has %d bytes", tag, f.Value, len(want))
			}
		default:
			return fmt.Sprintf("request %s: response carries a field the handler never set: %q: %q", tag, f.Name, f.Value)
		}
	}
	return ""
}
