package props

import (
	"fmt"
	"strings"
	"sync"
	"testing"

	"pgregory.net/rapid"

	"verif/harness/peer"
	"verif/harness/pooltrack"
	"verif/harness/rawframe"
	"verif/harness/refhpack"
	"verif/harness/speer"
)

// C19 — no data races; a pooled object never has two owners.
//
// The test binary for this property is built with -race. The workloads are the
// generated cases of the connection-level properties, biased to burst mode and
// run on several connections at once so that the process-wide pools are
// shared; each execution is still judged by its own oracle. Race reports are
// written by the runtime to GORACE's log_path and judged by the driver
// (signature = the innermost library frames of the two accesses).

var c19Tracker *pooltrack.Tracker

// c19Par runs the same case on k connections at the same time.
func c19Par[C any](k int, run func(C) Outcome) func(C) Outcome {
	return func(c C) Outcome {
		outs := make([]Outcome, k)
		var wg sync.WaitGroup
		for i := 0; i < k; i++ {
			wg.Add(1)
			go func(i int) {
				defer wg.Done()
				outs[i] = run(c)
			}(i)
		}
		wg.Wait()
		res := outs[0]
		for _, o := range outs {
			if o.Fail != "" {
				res = o
				break
			}
		}
		if res.Fail == "" && c19Tracker != nil {
			if v := c19Tracker.Take(); len(v) > 0 {
				return fail("pool", "%s", v[0])
			}
		}
		// schedule-dependent harness hiccups must not mask the rest of the run
		if res.Fail == "" {
			res.Inconcl = ""
			for _, o := range outs {
				if o.NonTrivial {
					res.NonTrivial = true
				}
			}
		}
		return res
	}
}

// c19Burst: requests, SETTINGS (table size, window, frame size), PING,
// WINDOW_UPDATE and RST_STREAM frames written to the server without waiting
// for anything in between, so that the read loop, the stream loop, the write
// loop and the handlers all work at once.
type c19Burst struct {
	Ops []c18Op `json:"ops"` // K: request / settings / ping / rst
}

func c19BurstRun(c c19Burst) Outcome {
	resps := map[string]peer.Resp{}
	for i, op := range c.Ops {
		if op.K == "request" {
			resps[fmt.Sprintf("t%d", i)] = peer.Resp{Status: 200, BodyLen: op.Body, Mode: op.N % 3,
				Fields: []refhpack.Field{{Name: "x-big", Value: strings.Repeat("h", op.HdrSize)}, {Name: "x-small", Value: fmt.Sprintf("v%d", i%4)}}}
		}
	}
	h := peer.Start(peer.Config{MaxConcurrentStreams: 100, MaxRequestBodySize: 1 << 20, Responses: resps})
	defer h.Close()
	h.SendSettings([][2]uint32{{4, 1 << 24}})
	h.SendWindowUpdate(0, 1<<24)
	id := uint32(1)
	type sent struct {
		tag string
		id  uint32
		rst bool
	}
	var reqs []sent
	for oi, op := range c.Ops {
		switch op.K {
		case "request":
			tag := fmt.Sprintf("t%d", oi)
			sendReq(h, id, simpleReq(tag))
			reqs = append(reqs, sent{tag: tag, id: id})
			id += 2
		case "settings":
			if inv, _ := c18InvalidSetting(op.Set); !inv {
				var kv [][2]uint32
				for _, x := range op.Set {
					if x[0] != 4 && x[0] != 5 { // windows and frame sizes stay wide open: this lane is about schedules
						kv = append(kv, x)
					}
				}
				_ = h.Write(rawframe.Append(nil, rawframe.Settings, 0, 0, rawframe.SettingsPayload(kv)))
			}
		case "ping":
			_ = h.Write(rawframe.Append(nil, rawframe.Ping, 0, 0, make([]byte, 8)))
		case "rst":
			if len(reqs) > 0 {
				k := op.N % len(reqs)
				if !reqs[k].rst {
					reqs[k].rst = true
					_ = h.Write(rawframe.Append(nil, rawframe.RstStream, 0, reqs[k].id, rawframe.U32(8)))
				}
			}
		}
	}
	if ok, d := h.Quiesce(); !ok {
		return Outcome{Inconcl: "no quiescence: " + d}
	}
	evs := h.EventsCopy()
	if ga := peer.GoAways(evs); len(ga) > 0 {
		return fail("goaway", "GOAWAY(%s, %q) during a burst of well-formed traffic", peer.CodeName(ga[0].Code), ga[0].Debug)
	}
	got := peer.Assemble(evs)
	for _, r := range reqs {
		if r.rst {
			continue
		}
		g := got[r.id]
		if g == nil || !g.Complete {
			return fail("response", "request %s (stream %d) got %s", r.tag, r.id, g)
		}
		if string(g.Body) != string(peer.BodyFor(r.tag, resps[r.tag].BodyLen)) {
			return fail("response", "request %s (stream %d): body differs", r.tag, r.id)
		}
	}
	for _, l := range h.Log.Lines() {
		if containsPanic(l) {
			return fail("panic", "server logged a panic: %s", firstLines(l, 12))
		}
	}
	return Outcome{NonTrivial: len(reqs) >= 2, Classes: []string{"burst"}}
}

func c19BurstGen(t *rapid.T) c19Burst {
	var c c19Burst
	n := rapid.IntRange(3, 30).Draw(t, "n")
	for i := 0; i < n; i++ {
		switch rapid.IntRange(0, 9).Draw(t, "k") {
		case 0, 1, 2:
			c.Ops = append(c.Ops, c18Op{K: "settings", Set: c18GenSettings(t, true)})
		case 3:
			c.Ops = append(c.Ops, c18Op{K: "ping"})
		case 4:
			c.Ops = append(c.Ops, c18Op{K: "rst", N: rapid.IntRange(0, 30).Draw(t, "which")})
		default:
			c.Ops = append(c.Ops, c18Op{K: "request", HdrSize: rapid.SampledFrom([]int{0, 10, 300, 5000, 20000}).Draw(t, "hdr"),
				Body: rapid.SampledFrom([]int{0, 10, 3000, 70000}).Draw(t, "body"), N: rapid.IntRange(0, 2).Draw(t, "mode")})
		}
	}
	return c
}

// c19CBurst: concurrent RoundTrips while the scripted server changes its
// SETTINGS, grants window and pings, all at once.
type c19CBurst struct {
	Reqs []speer.ReqSpec `json:"reqs"`
	Sets [][][2]uint32   `json:"sets"`
	// Storm: after each request, this many SETTINGS frames that only grow INITIAL_WINDOW_SIZE
	Storm int `json:"storm,omitempty"`
}

func c19CBurstRun(c c19CBurst) Outcome {
	env, err := speer.NewEnv(clientOpts())
	if err != nil {
		return Outcome{Inconcl: "cannot set the client up: " + err.Error()}
	}
	defer env.Close()
	sc := env.Conn(0)
	if sc == nil {
		return Outcome{Inconcl: "no connection"}
	}
	sc.SendWindowUpdate(0, 1<<24)
	var calls []*speer.Call
	initWin := uint32(65535)
	for i, r := range c.Reqs {
		calls = append(calls, env.Do(r))
		if i < len(c.Sets) {
			var kv [][2]uint32
			for _, x := range c.Sets[i] {
				if x[0] == 1 || x[0] == 5 || x[0] == 6 {
					kv = append(kv, x)
				}
				if x[0] == 4 {
					// INITIAL_WINDOW_SIZE only ever grows here: uploads are in flight, and a reduction would make
					// octets already on their way look like an overrun to the ledger. Growing it is enough to have
					// the read loop rewrite the send windows while the write loop opens streams.
					if d := x[1] % 50000; initWin+d < 1<<30 {
						initWin += d
					}
					kv = append(kv, [2]uint32{4, initWin})
				}
			}
			sc.SendSettings(kv)
			_ = sc.Write(rawframe.Append(nil, rawframe.Ping, 0, 0, make([]byte, 8)))
		}
		// a run of SETTINGS frames that keep growing the initial window while the next requests are being written:
		// the read loop rewrites the send windows as often as the write loop opens streams
		for k := 0; k < c.Storm; k++ {
			if initWin+97 < 1<<30 {
				initWin += 97
			}
			sc.SendSettings([][2]uint32{{4, initWin}})
		}
	}
	for round := 0; round < 10; round++ {
		if ok, d := env.Quiesce(); !ok {
			return Outcome{Inconcl: "no quiescence: " + d}
		}
		did := false
		for _, s2 := range env.ConnsCopy() {
			for sid, g := range peer.Assemble(s2.EventsCopy()) {
				if sid%2 == 0 {
					continue
				}
				if g.EndStream > 0 && !s2.Answered(sid) {
					s2.MarkAnswered(sid)
					blk := s2.EncodeBlock(nil, []peer.FieldSpec{{F: refhpack.Field{Name: ":status", Value: "200"}, R: refhpack.Rep{Kind: 0}}, {F: refhpack.Field{Name: "x-shared", Value: "one-value-for-all"}, R: refhpack.Rep{Kind: 0, Alt: 1}}})
					_ = s2.Write(peer.SplitBlock(sid, blk, []int{3}, true, 0, false, 0, false, 0)[0])
					if fs := peer.SplitBlock(sid, blk, []int{3}, true, 0, false, 0, false, 0); len(fs) > 1 {
						_ = s2.Write(fs[1])
					}
					s2.StreamDone(sid)
					did = true
				} else if g.EndStream == 0 && !g.Rst {
					// the client is quiescent with this upload unfinished: it must be out of window by the ledger
					// built from what we sent (a SETTINGS change the client missed for this stream shows here)
					if sw, cw := s2.Windows(sid); sw > 0 && cw > 0 {
						return fail("upload-stalled", "stream %d: the client is quiescent with the upload unfinished (%d octets received) although the stream window is %d and the connection window %d by what this server granted", sid, len(g.Body), sw, cw)
					}
					if sw, _ := s2.Windows(sid); sw < 1<<20 {
						s2.SendWindowUpdate(sid, uint32(1<<21-sw))
						did = true
					}
				}
			}
		}
		if !did {
			break
		}
	}
	for _, s2 := range env.ConnsCopy() {
		if f, cv := s2.Violations(); f != "" || cv != "" {
			return fail("limit-exceeded", "%s%s", f, cv)
		}
		for _, e := range s2.EventsCopy() {
			if e.Kind == "headers" && e.HdrErr != "" {
				return fail("header-block", "request header block on stream %d does not decode: %s", e.Stream, e.HdrErr)
			}
		}
	}
	for i, call := range calls {
		if !call.Finished() || call.Err != nil || call.Status != 200 {
			return fail("request", "request %s: finished=%v err=%v status=%d", c.Reqs[i].Tag, call.Finished(), call.Err, call.Status)
		}
	}
	return Outcome{NonTrivial: len(c.Reqs) >= 2 && len(c.Sets) >= 1, Classes: []string{"cburst"}}
}

func c19CBurstGen(t *rapid.T) c19CBurst {
	var c c19CBurst
	n := rapid.IntRange(2, 8).Draw(t, "n")
	for i := 0; i < n; i++ {
		c.Reqs = append(c.Reqs, genClientReq(t, fmt.Sprintf("t%d", i), 70000))
	}
	c.Storm = rapid.SampledFrom([]int{0, 0, 5, 25}).Draw(t, "storm")
	k := rapid.IntRange(0, n).Draw(t, "nsets")
	for i := 0; i < k; i++ {
		c.Sets = append(c.Sets, c18GenSettings(t, true))
	}
	return c
}

func TestC19(t *testing.T) {
	s := newSuite(t, "C19",
		"a burst lane (requests with response header blocks up to 20000 octets and bodies up to 70000, SETTINGS changing HEADER_TABLE_SIZE / MAX_CONCURRENT_STREAMS / MAX_HEADER_LIST_SIZE, PING and RST_STREAM, all written without waiting, so every loop and the handlers run at once) and the generated workloads of C01 (burst, multiplexed exchanges), C09 (stream errors among live streams), C10 (connection errors with parked handlers and hostile trailing behaviour), C17 (disconnects, mutations, write failures, handlers outliving the connection), C18 (SETTINGS changes in the middle of traffic, both roles), C02 (concurrent RoundTrips, burst), C11 (GOAWAY racing requests) and C12 (faults, Client.Close racing RoundTrip, timeouts), the server-role cases run on 3 connections at the same time so the process-wide pools are shared (client-role cases one at a time: their quiescence test reads process-wide goroutine states), in a binary built with the Go race detector. Oracle: (1) no race report whose access stacks lie in github.com/dgrr/http2 (reports are parsed by the driver; signature = innermost library frame of each access); (2) the pool observer sees no double release, no object handed out while owned, no RequestCtx returned while its handler is inside; (3) each execution's own oracle; (4) errors lane: a Conn made with NewConn over an in-memory pipe is ended by the scripted server (GOAWAY with any last-stream-id/code/debug text, RST_STREAM on stream 0, garbage, invalid SETTINGS or PING, EOF), then frames of every type are acquired, filled and released as other connections would: Conn.LastErr() reads the same before and after, is never handed out by a pool, and never carries the mark the pool observer writes into every frame on release. Non-trivial = a case its own lane counts as non-trivial (interleaved streams, SETTINGS mid-traffic, Close/RST racing a handler or a write); distinct by case hash.",
		"thread schedules are sampled by repetition and parallel connections, not enumerated")
	defer s.finish()
	c19Tracker = pooltrack.Start(false)
	c17Tracker = c19Tracker
	defer func() { pooltrack.Stop(); c19Tracker, c17Tracker = nil, nil }()

	runLane(s, Lane[c01Case]{Name: "c01", Journal: true, Quick: 60, Thor: 800, Gen: func(t *rapid.T) c01Case {
		c := c01Gen(t)
		c.Burst = rapid.IntRange(0, 3).Draw(t, "burst19") != 0
		return c
	}, Run: c19Par(3, c01Run)})
	runLane(s, Lane[c19Burst]{Name: "burst", Journal: true, Quick: 200, Thor: 3000, Gen: c19BurstGen, Run: c19Par(3, c19BurstRun)})
	runLane(s, Lane[c09Case]{Name: "c09", Journal: true, Quick: 60, Thor: 800, Gen: c09Gen, Run: c19Par(3, c09Run)})
	runLane(s, Lane[c10Case]{Name: "c10", Journal: true, Quick: 40, Thor: 500, Gen: c10Gen, Run: c19Par(3, c10Run)})
	runLane(s, Lane[c17Case]{Name: "c17", Journal: true, Quick: 150, Thor: 2000, Gen: c17Gen, Run: c19Par(3, c17Run)})
	runLane(s, Lane[c18Case]{Name: "c18s", Journal: true, Quick: 60, Thor: 800, Gen: c18Gen, Run: c19Par(3, c18ServerRun)})
	runLane(s, Lane[c02Case]{Name: "c02", Journal: true, Quick: 30, Thor: 400, Gen: func(t *rapid.T) c02Case {
		c := c02Gen(t)
		c.Burst = rapid.IntRange(0, 3).Draw(t, "burst19") != 0
		return c
	}, Run: c19Par(1, c02Run)})
	runLane(s, Lane[c19CBurst]{Name: "cburst", Journal: true, Quick: 40, Thor: 500, Gen: c19CBurstGen, Run: c19Par(1, c19CBurstRun)})
	runLane(s, Lane[c18CCase]{Name: "c18c", Journal: true, Quick: 20, Thor: 300, Gen: c18CGen, Run: c19Par(1, c18ClientRun)})
	runLane(s, Lane[c11Case]{Name: "c11", Journal: true, Quick: 20, Thor: 300, Gen: c11Gen, Run: c19Par(1, c11Run)})
	runLane(s, Lane[c12Case]{Name: "c12", Journal: true, Quick: 30, Thor: 400, Gen: c12Gen, Run: c19Par(1, c12Run)})
	runLane(s, Lane[c19ErrCase]{Name: "errors", Journal: true, Quick: 60, Thor: 3000, Gen: c19ErrGen, Run: c19Par(1, c19ErrRun)})
}

var _ = fmt.Sprintf
