package props

import (
	"fmt"
	"sort"
	"testing"

	"pgregory.net/rapid"

	"verif/harness/peer"
	"verif/harness/rawframe"
	"verif/harness/refhpack"
)

// C08 — the server reacts to each frame as its stream's RFC 7540 state prescribes.

type c08Frame struct {
	K      string `json:"k"`              // H C D R W P PING SET U REL BULK (40..310 complete requests at once; Code picks how many)
	Slot   int    `json:"slot"`           // 0..4 existing stream by age, 5 next new id, 6 new id skipping one, 7 lower never-used odd id, 8 even id, 9 stream 0
	ES     bool   `json:"es,omitempty"`   // END_STREAM
	EH     bool   `json:"eh,omitempty"`   // END_HEADERS
	Prio   int    `json:"prio,omitempty"` // HEADERS/PRIORITY: 0 none(H)/other(P), 1 other, 2 self
	Empty  bool   `json:"empty,omitempty"`
	Padded bool   `json:"pad,omitempty"`
	Incr   int    `json:"incr,omitempty"` // W: 0 zero, 1 small, 2 up to exactly 2^31-1, 3 one past
	Code   uint32 `json:"code,omitempty"`
	X      byte   `json:"x,omitempty"`   // undefined flag bits to add
	Fix    bool   `json:"fix,omitempty"` // steer this frame to a stream on which its kind is legal in the current state (when one exists)
}

type c08Case struct {
	Frames []c08Frame `json:"frames"`
	Gated  bool       `json:"gated,omitempty"`
}

const (
	stIdle = iota
	stOpen
	stHCR
	stClosedDone
	stClosedPeerRST
	stClosedServerRST
	stClosedImplicit
)

var c08StateNames = []string{"idle", "open", "half-closed(remote)", "closed(done)", "closed(peer RST)", "closed(server RST)", "closed(implicitly)"}

type c08Stream struct {
	id       uint32
	state    int
	tag      string
	hdrDone  bool // request header block complete
	esSeen   bool // END_STREAM seen from the peer
	body     int
	running  bool // handler dispatched and (if gated) not yet released
	released bool
	dispatch bool
	respOK   bool // response fully received
}

// allowed reaction to one frame
type c08Allowed struct {
	what  string
	none  bool            // no error output is acceptable
	rstOn uint32          // stream a RST_STREAM may come on
	rst   map[uint32]bool // acceptable RST_STREAM codes
	conn  map[uint32]bool // acceptable GOAWAY codes (bare close accepted whenever non-empty)
	only  bool            // nothing at all may come back (ignored frames): no response either
	ack   string          // "settings" / "ping": the acknowledgement that must come back
}

func codes(cs ...uint32) map[uint32]bool {
	m := map[uint32]bool{}
	for _, c := range cs {
		m[c] = true
	}
	return m
}

const (
	ecProtocol     = 1
	ecFlow         = 3
	ecStreamClosed = 5
	ecFrameSize    = 6
	ecRefused      = 7
)

func sErr(id uint32, c ...uint32) c08Allowed { // stream error c, or a connection error of the same kind
	return c08Allowed{rstOn: id, rst: codes(c...), conn: codes(c...)}
}
func cErr(c ...uint32) c08Allowed { return c08Allowed{conn: codes(c...)} }

func c08Run(c c08Case) Outcome {
	def := peer.Resp{Status: 200, BodyLen: 3, Gate: c.Gated}
	h := peer.Start(peer.Config{MaxConcurrentStreams: 100, MaxRequestBodySize: 1 << 20, DefaultResp: def})
	defer h.Close()
	h.SendSettings(nil)
	if ok, d := h.Quiesce(); !ok {
		return Outcome{Inconcl: "no quiescence after the preface: " + d}
	}
	evIdx := h.NumEvents()

	var order []*c08Stream // streams opened by HEADERS, by age
	byID := map[uint32]*c08Stream{}
	used := map[uint32]bool{}
	var maxOpened uint32
	var blockOpen uint32 // stream whose header block awaits CONTINUATION
	var blockRest []byte
	var blockES, blockTrailer, blockLegal bool
	pairs := map[string]bool{}
	nonOpenSeen := false
	history := ""
	dispatched := 0

	stateOf := func(id uint32) int {
		if s := byID[id]; s != nil {
			return s.state
		}
		if id%2 == 1 && id < maxOpened {
			return stClosedImplicit
		}
		return stIdle
	}

	for fi, f := range c.Frames {
		// ---- steering towards deep legal prefixes (deterministic in the case and the model state)
		fixed := uint32(0)
		if f.Fix {
			pick := func(ok func(*c08Stream) bool) uint32 {
				var cand []*c08Stream
				for _, x := range order {
					if ok(x) {
						cand = append(cand, x)
					}
				}
				if len(cand) == 0 {
					return 0
				}
				return cand[f.Slot%len(cand)].id
			}
			switch {
			case blockOpen != 0:
				f.K, fixed = "C", blockOpen
			case f.K == "C":
				f.K, f.Slot = "H", 5
			case f.K == "H":
				if f.ES && f.Slot < 5 {
					fixed = pick(func(x *c08Stream) bool { return x.state == stOpen && x.hdrDone })
				}
				if fixed == 0 {
					f.Slot = 5
				}
			case f.K == "D":
				fixed = pick(func(x *c08Stream) bool { return x.state == stOpen && x.hdrDone })
				if fixed == 0 {
					f.K, f.Slot, f.ES = "H", 5, false
				}
			case f.K == "W" || f.K == "R" || f.K == "P":
				fixed = pick(func(x *c08Stream) bool { return x.state == stOpen || x.state == stHCR })
			case f.K == "REL":
				fixed = pick(func(x *c08Stream) bool { return x.running && !x.released })
			}
		}
		// ---- resolve the slot
		var id uint32
		switch {
		case fixed != 0:
			id = fixed
		case f.Slot <= 4 && f.Slot < len(order):
			id = order[f.Slot].id
		case f.Slot <= 5:
			id = maxOpened + 2
			if maxOpened == 0 {
				id = 1
			}
		case f.Slot == 6:
			id = maxOpened + 4
			if maxOpened == 0 {
				id = 3
			}
		case f.Slot == 7:
			for x := uint32(1); x < maxOpened; x += 2 {
				if !used[x] {
					id = x
					break
				}
			}
			if id == 0 {
				id = maxOpened + 2
				if maxOpened == 0 {
					id = 1
				}
			}
		case f.Slot == 8:
			id = 2 + 2*uint32(fi%3)
		default:
			id = 0
		}
		if f.K == "PING" || f.K == "SET" {
			if f.Slot != 8 || f.Fix {
				id = 0
			} else {
				id = 1 + 2*uint32(fi%2) // connection frame on a stream
			}
		}
		st := stateOf(id)
		s := byID[id]

		// ---- build the frame and the allowed reactions
		var wire []byte
		var al c08Allowed
		desc := ""
		inBlock := blockOpen != 0
		switch f.K {
		case "BULK":
			// open and complete many streams at once, so that the oldest ones fall
			// out of whatever the server remembers about closed streams
			if inBlock || c.Gated {
				continue
			}
			n := 40 + int(f.Code%4)*90 // 40..310
			for k := 0; k < n; k++ {
				bid := maxOpened + 2
				if maxOpened == 0 {
					bid = 1
				}
				tag := fmt.Sprintf("t%d", bid)
				r := simpleReq(tag)
				h.OpenStream(bid)
				_ = h.Write(peer.SplitBlock(bid, h.EncodeBlock(nil, r.HeaderList()), nil, true, 0, false, 0, false, 0)[0])
				bs := &c08Stream{id: bid, state: stHCR, tag: tag, hdrDone: true, esSeen: true}
				byID[bid] = bs
				used[bid] = true
				order = append(order, bs)
				maxOpened = bid
				if k%40 == 39 {
					// stay far below MAX_CONCURRENT_STREAMS: let each batch be answered
					if ok, d := h.Quiesce(); !ok {
						return Outcome{Inconcl: "no quiescence inside a bulk of requests: " + d}
					}
					h.Replenish()
				}
			}
			if len(order) > 5 {
				// slots 0..4 now address the oldest streams
			}
			al = c08Allowed{none: true}
			desc = fmt.Sprintf("%d complete requests at once (streams up to %d)", n, maxOpened)
			h.Replenish()
		case "REL":
			if s == nil || !s.running || s.released {
				continue
			}
			s.released = true
			h.Release(s.tag)
			al = c08Allowed{none: true}
			desc = fmt.Sprintf("release handler of stream %d", id)
		case "H":
			var fl byte = f.X & 0xd2 // undefined bits of HEADERS: 0x02 0x10 0x40 0x80
			if f.ES {
				fl |= rawframe.FlagEndStream
			}
			if f.EH {
				fl |= rawframe.FlagEndHeaders
			}
			legalOpen := !inBlock && id != 0 && id%2 == 1 && st == stIdle
			legalTrailer := !inBlock && s != nil && st == stOpen && s.hdrDone && f.ES
			var block []byte
			tag := fmt.Sprintf("t%d", id)
			switch {
			case legalOpen:
				r := simpleReq(tag)
				r.Method = "POST"
				block = h.EncodeBlock(nil, r.HeaderList())
			case legalTrailer:
				block = h.EncodeBlock(nil, []peer.FieldSpec{{F: refhpack.Field{Name: "x-trailer", Value: "v"}, R: refhpack.Rep{Kind: 2}}})
			default:
				block = []byte{0x83, 0x87, 0x84} // static references only: no table change whether decoded or not
			}
			payload := block
			if !f.EH && len(block) > 1 {
				payload = block[:len(block)/2]
			}
			var pr []byte
			if f.Prio != 0 {
				fl |= rawframe.FlagPriority
				dep := id + 2
				if f.Prio == 2 {
					dep = id
				}
				pr = rawframe.PrioritySection(dep, false, 16)
			}
			p := append(pr, payload...)
			if f.Padded {
				fl |= rawframe.FlagPadded
				p = rawframe.Padded(p, 3, 0)
			}
			wire = rawframe.Append(nil, rawframe.Headers, fl, id, p)
			desc = fmt.Sprintf("HEADERS(stream=%d %s es=%v eh=%v prio=%d flags=%#x)", id, c08StateNames[st], f.ES, f.EH, f.Prio, fl)
			switch {
			case inBlock:
				al = cErr(ecProtocol)
			case id == 0, id%2 == 0:
				al = cErr(ecProtocol)
			case f.Prio == 2 && (legalOpen || legalTrailer):
				al = sErr(id, ecProtocol)
			case legalOpen:
				al = c08Allowed{none: true}
			case legalTrailer:
				al = c08Allowed{none: true}
			case st == stOpen:
				al = sErr(id, ecProtocol) // second HEADERS without END_STREAM (or before the first block is done)
			case st == stHCR:
				al = sErr(id, ecStreamClosed)
			case st == stClosedImplicit:
				al = cErr(ecProtocol, ecStreamClosed)
			case st == stClosedPeerRST:
				al = sErr(id, ecStreamClosed)
				al.conn[ecProtocol] = true
				al.none = true
			case st == stClosedServerRST:
				al = sErr(id, ecStreamClosed)
				al.conn[ecProtocol] = true // once the id has aged out of what the server remembers it is simply an old id (5.1.1)
				al.none = true
			default: // closed(done)
				al = sErr(id, ecStreamClosed)
				al.conn[ecProtocol] = true
			}
			if al.none && (legalOpen || legalTrailer) {
				// model update for a legal block
				if legalOpen {
					for x := maxOpened + 2; maxOpened != 0 && x < id; x += 2 {
						used[x] = used[x] // stays unused: closed implicitly
					}
					s = &c08Stream{id: id, state: stOpen, tag: tag}
					h.OpenStream(id)
					byID[id] = s
					used[id] = true
					order = append(order, s)
					maxOpened = id
				}
				if f.ES {
					s.esSeen = true
				}
				if f.EH {
					s.hdrDone = true
				} else {
					blockOpen, blockRest, blockES, blockTrailer, blockLegal = id, block[len(payload):], f.ES, legalTrailer, true
					if legalTrailer {
						s.hdrDone = false
					}
				}
				if s.esSeen && s.hdrDone {
					s.state = stHCR
				}
			}
		case "C":
			var fl byte = f.X & 0xfb
			if f.EH {
				fl |= rawframe.FlagEndHeaders
			}
			legal := inBlock && id == blockOpen
			payload := []byte{0x82}
			if legal {
				payload = blockRest
				if !f.EH && len(blockRest) > 1 {
					payload = blockRest[:len(blockRest)/2]
				}
			}
			wire = rawframe.Append(nil, rawframe.Continuation, fl, id, payload)
			desc = fmt.Sprintf("CONTINUATION(stream=%d %s eh=%v flags=%#x)", id, c08StateNames[st], f.EH, fl)
			if !legal {
				al = cErr(ecProtocol)
			} else {
				al = c08Allowed{none: true}
				blockRest = blockRest[len(payload):]
				if f.EH {
					blockOpen = 0
					if blockLegal && s != nil && (s.state == stOpen || s.state == stHCR) {
						s.hdrDone = true
						if s.esSeen {
							s.state = stHCR
						}
					}
				}
			}
		case "D":
			var fl byte = f.X & 0xf6
			if f.ES {
				fl |= rawframe.FlagEndStream
			}
			body := []byte("0123456789")
			if f.Empty {
				body = nil
			}
			p := body
			if f.Padded {
				fl |= rawframe.FlagPadded
				p = rawframe.Padded(body, 2, 0)
			}
			wire = rawframe.Append(nil, rawframe.Data, fl, id, p)
			desc = fmt.Sprintf("DATA(stream=%d %s es=%v len=%d flags=%#x)", id, c08StateNames[st], f.ES, len(p), fl)
			switch {
			case inBlock:
				al = cErr(ecProtocol)
			case id == 0, id%2 == 0:
				al = cErr(ecProtocol)
			case st == stIdle:
				al = cErr(ecProtocol)
			case st == stOpen && s.hdrDone:
				al = c08Allowed{none: true}
				s.body += len(body)
				if f.ES {
					s.esSeen = true
					s.state = stHCR
				}
			case st == stHCR:
				al = sErr(id, ecStreamClosed)
			case st == stClosedImplicit:
				al = sErr(id, ecStreamClosed)
				al.conn[ecProtocol] = true
			case st == stClosedPeerRST:
				al = sErr(id, ecStreamClosed)
				al.conn[ecProtocol] = true
				al.none = true
			case st == stClosedServerRST:
				al = sErr(id, ecStreamClosed)
				al.conn[ecProtocol] = true
				al.none = true
			default:
				al = sErr(id, ecStreamClosed)
				al.conn[ecProtocol] = true
			}
		case "R":
			wire = rawframe.Append(nil, rawframe.RstStream, f.X, id, rawframe.U32(f.Code))
			desc = fmt.Sprintf("RST_STREAM(stream=%d %s code=%d flags=%#x)", id, c08StateNames[st], f.Code, f.X)
			switch {
			case inBlock:
				al = cErr(ecProtocol)
			case id == 0, id%2 == 0:
				al = cErr(ecProtocol)
			case st == stIdle:
				al = cErr(ecProtocol)
			case st == stOpen || st == stHCR:
				al = c08Allowed{none: true, only: true}
				s.state = stClosedPeerRST
			default:
				al = c08Allowed{none: true, only: true}
				al.rstOn, al.rst, al.conn = id, codes(ecStreamClosed), codes(ecProtocol, ecStreamClosed)
			}
		case "W":
			sw, cw := h.Windows(id)
			var incr uint32
			cur := cw
			if id != 0 && s != nil {
				cur = sw
			}
			switch f.Incr {
			case 0:
				incr = 0
			case 1:
				incr = 1 + uint32(fi)*7
			case 2:
				incr = uint32((1<<31 - 1) - cur)
			default:
				incr = uint32((1<<31 - 1) - cur + 1)
			}
			if incr > 1<<31-1 {
				incr = 1<<31 - 1
			}
			over := cur+int64(incr) > 1<<31-1
			wire = rawframe.Append(nil, rawframe.WindowUpdate, f.X, id, rawframe.U32(incr))
			desc = fmt.Sprintf("WINDOW_UPDATE(stream=%d %s incr=%d window-before=%d flags=%#x)", id, c08StateNames[st], incr, cur, f.X)
			switch {
			case inBlock:
				al = cErr(ecProtocol)
			case id == 0:
				switch {
				case incr == 0:
					al = cErr(ecProtocol)
				case over:
					al = cErr(ecFlow)
				default:
					al = c08Allowed{none: true}
				}
			case id%2 == 0:
				al = cErr(ecProtocol)
			case st == stIdle:
				al = cErr(ecProtocol)
			case st == stOpen || st == stHCR:
				switch {
				case incr == 0:
					al = sErr(id, ecProtocol)
				case over:
					al = sErr(id, ecFlow)
				default:
					al = c08Allowed{none: true}
				}
			default:
				al = c08Allowed{none: true, only: true}
				al.rstOn, al.rst, al.conn = id, codes(ecStreamClosed), codes(ecProtocol, ecStreamClosed)
			}
			if al.none && !al.only && incr > 0 {
				// keep the ledger in step (written below as raw bytes)
				wire = nil
				h.SendWindowUpdateFlags(id, incr, f.X)
			}
		case "P":
			dep := id + 2
			if f.Prio == 2 {
				dep = id
			}
			wire = rawframe.Append(nil, rawframe.Priority, f.X, id, rawframe.PrioritySection(dep, f.Padded, 7))
			desc = fmt.Sprintf("PRIORITY(stream=%d %s dep=%d flags=%#x)", id, c08StateNames[st], dep, f.X)
			switch {
			case inBlock:
				al = cErr(ecProtocol)
			case id == 0:
				al = cErr(ecProtocol)
			case id%2 == 0:
				al = c08Allowed{none: true, only: true, conn: codes(ecProtocol)}
			case f.Prio == 2:
				al = sErr(id, ecProtocol)
				if st >= stClosedDone {
					al.none = true // a closed stream's priority may simply be ignored
				}
			default:
				al = c08Allowed{none: true, only: true}
			}
		case "PING":
			var fl byte = f.X & 0xfe
			if f.ES {
				fl |= rawframe.FlagAck
			}
			data := []byte{1, 2, 3, 4, 5, 6, 7, byte(fi)}
			wire = rawframe.Append(nil, rawframe.Ping, fl, id, data)
			desc = fmt.Sprintf("PING(stream=%d ack=%v flags=%#x)", id, f.ES, fl)
			switch {
			case inBlock:
				al = cErr(ecProtocol)
			case id != 0:
				al = cErr(ecProtocol)
			case f.ES:
				al = c08Allowed{none: true, only: true}
			default:
				al = c08Allowed{none: true, ack: "ping:" + string(data)}
			}
		case "SET":
			var fl byte = f.X & 0xfe
			payload := rawframe.SettingsPayload([][2]uint32{{3, 50}})
			if f.ES {
				fl |= rawframe.FlagAck
				payload = nil
			}
			wire = rawframe.Append(nil, rawframe.Settings, fl, id, payload)
			desc = fmt.Sprintf("SETTINGS(stream=%d ack=%v flags=%#x)", id, f.ES, fl)
			switch {
			case inBlock:
				al = cErr(ecProtocol)
			case id != 0:
				al = cErr(ecProtocol)
			case f.ES:
				al = c08Allowed{none: true, only: true}
			default:
				al = c08Allowed{none: true, ack: "settings"}
			}
		case "U":
			wire = rawframe.Append(nil, 0x0a+byte(fi%5), f.X, id, []byte{1, 2, 3})
			desc = fmt.Sprintf("frame of unknown type %#x (stream=%d flags=%#x)", 0x0a+fi%5, id, f.X)
			if inBlock {
				al = cErr(ecProtocol)
			} else {
				al = c08Allowed{none: true, only: true}
			}
		default:
			continue
		}
		if st != stOpen && st != stIdle || id%2 == 0 {
			nonOpenSeen = true
		}
		pairs[fmt.Sprintf("%s/%d", f.K, st)] = true
		history += fmt.Sprintf("\n   %2d. %s", fi, desc)
		if wire != nil {
			_ = h.Write(wire)
		}
		if ok, d := h.Quiesce(); !ok {
			return Outcome{Inconcl: "no quiescence after " + desc + ": " + d}
		}

		// ---- classify what came back
		evs := h.EventsCopy()
		newEvs := evs[evIdx:]
		evIdx = len(evs)
		var goaway *peer.Event
		eof := false
		rsts := map[uint32]uint32{}
		other := 0
		acks := []string{}
		for i := range newEvs {
			e := newEvs[i]
			switch e.Kind {
			case "goaway":
				goaway = &newEvs[i]
			case "eof", "error":
				eof = true
			case "rst":
				rsts[e.Stream] = e.Code
			case "settingsack":
				acks = append(acks, "settings")
			case "pingack":
				acks = append(acks, "ping:"+string(e.Ping[:]))
			case "window":
			default:
				other++
			}
		}
		bad := func(sig, format string, a ...interface{}) Outcome {
			return fail(sig, "frame %d %s: %s\n  history:%s", fi, desc, fmt.Sprintf(format, a...), history)
		}
		connErr := goaway != nil || eof
		if connErr {
			if len(al.conn) == 0 {
				if goaway != nil {
					return bad("unexpected-goaway:"+peer.CodeName(goaway.Code), "connection error GOAWAY(last=%d %s %q); the RFC allows %s", goaway.Last, peer.CodeName(goaway.Code), goaway.Debug, al.describe())
				}
				return bad("unexpected-close", "connection closed; the RFC allows %s", al.describe())
			}
			if goaway != nil && !al.conn[goaway.Code] {
				return bad("wrong-goaway-code:"+peer.CodeName(goaway.Code), "GOAWAY carries %s (%q); the RFC allows %s", peer.CodeName(goaway.Code), goaway.Debug, al.describe())
			}
			// the connection is over: nothing more to drive
			break
		}
		if len(rsts) > 0 {
			for sid, code := range rsts {
				if sid != al.rstOn || !al.rst[code] {
					return bad("unexpected-rst:"+peer.CodeName(code), "RST_STREAM(%s) on stream %d; the RFC allows %s", peer.CodeName(code), sid, al.describe())
				}
				if x := byID[sid]; x != nil {
					x.state = stClosedServerRST
				} else {
					byID[sid] = &c08Stream{id: sid, state: stClosedServerRST, tag: "none"}
					used[sid] = true
				}
			}
		} else if !al.none {
			return bad("no-error", "no error came back; the RFC requires %s", al.describe())
		}
		if f.K == "H" && !f.EH && blockOpen != id {
			// whatever the stream's fate, a HEADERS frame without END_HEADERS that did
			// not end the connection leaves a header block open on it (RFC 7540 6.10)
			blockOpen, blockRest, blockLegal = id, nil, false
		}
		if al.ack != "" {
			found := false
			for _, a := range acks {
				if a == al.ack {
					found = true
				}
			}
			if !found || len(acks) != 1 {
				return bad("ack", "expected exactly one acknowledgement (%q), got %q", al.ack, acks)
			}
		} else if len(acks) > 0 {
			return bad("ack", "unexpected acknowledgement %q", acks)
		}
		if al.only && other > 0 && len(rsts) == 0 {
			return bad("not-ignored", "%d frames came back for a frame that must be ignored", other)
		}
		_ = blockES
		_ = blockTrailer

		// ---- requests that completed legally: dispatch / response bookkeeping
		for _, x := range order {
			if x.state == stHCR && !x.dispatch {
				x.dispatch = true
				x.running = true
				dispatched++
				if !c.Gated {
					x.released = true
				}
			}
		}
		got := peer.Assemble(evs)
		for _, x := range order {
			if x.dispatch && x.released && x.state == stHCR {
				g := got[x.id]
				if g == nil || !g.Complete {
					return bad("no-response", "request on stream %d completed legally (and its handler returned) but its response is %s", x.id, g)
				}
				x.state, x.running, x.respOK = stClosedDone, false, true
			}
		}
		seen := h.SeenCopy()
		if len(seen) != dispatched {
			return bad("dispatch-count", "handler has run %d times, the frame sequence completes %d legal requests", len(seen), dispatched)
		}
	}
	// final: every handler invocation belongs to a legal request, with the right body
	h.ReleaseAll()
	_, _ = h.Quiesce()
	seen := h.SeenCopy()
	for _, sn := range seen {
		var x *c08Stream
		for _, o := range order {
			if o.tag == sn.Tag {
				x = o
			}
		}
		if x == nil || !x.dispatch {
			return fail("illegal-dispatch", "handler ran for %q which no legal frame sequence completed\n  history:%s", sn.Tag, history)
		}
		if len(sn.Body) != x.body {
			return fail("dispatch-body", "handler for stream %d saw %d body bytes, %d were sent in legal DATA frames\n  history:%s", x.id, len(sn.Body), x.body, history)
		}
	}
	if len(seen) != dispatched {
		return fail("dispatch-count", "handler ran %d times, the frame sequence completes %d legal requests\n  history:%s", len(seen), dispatched, history)
	}
	keys := make([]string, 0, len(pairs))
	for k := range pairs {
		keys = append(keys, k)
	}
	sort.Strings(keys)
	return Outcome{NonTrivial: len(pairs) >= 3 && nonOpenSeen, Classes: keys}
}

func (a c08Allowed) describe() string {
	s := ""
	if a.none {
		s += "processing without error"
	}
	if len(a.rst) > 0 {
		if s != "" {
			s += ", or "
		}
		s += fmt.Sprintf("RST_STREAM%v on stream %d", codeNames(a.rst), a.rstOn)
	}
	if len(a.conn) > 0 {
		if s != "" {
			s += ", or "
		}
		s += fmt.Sprintf("GOAWAY%v / close", codeNames(a.conn))
	}
	return s
}

func codeNames(m map[uint32]bool) []string {
	var out []string
	for c := range m {
		out = append(out, peer.CodeName(c))
	}
	sort.Strings(out)
	return out
}

func c08Gen(t *rapid.T) c08Case {
	n := rapid.OneOf(rapid.IntRange(1, 14), rapid.IntRange(6, 14)).Draw(t, "n")
	c := c08Case{Gated: rapid.Bool().Draw(t, "gated")}
	for i := 0; i < n; i++ {
		f := c08Frame{K: rapid.SampledFrom([]string{"H", "H", "H", "C", "D", "D", "R", "W", "W", "P", "PING", "SET", "U", "REL"}).Draw(t, "k")}
		if rapid.IntRange(0, 39).Draw(t, "bulk") == 0 {
			f.K = "BULK"
		}
		f.Slot = rapid.SampledFrom([]int{0, 0, 1, 2, 3, 5, 5, 5, 6, 7, 8, 9}).Draw(t, "slot")
		f.ES = rapid.Bool().Draw(t, "es")
		f.EH = rapid.IntRange(0, 3).Draw(t, "eh") != 0
		f.Prio = rapid.SampledFrom([]int{0, 0, 0, 1, 2}).Draw(t, "prio")
		f.Empty = rapid.IntRange(0, 3).Draw(t, "empty") == 0
		f.Padded = rapid.IntRange(0, 3).Draw(t, "pad") == 0
		f.Incr = rapid.SampledFrom([]int{0, 1, 1, 1, 2, 3}).Draw(t, "incr")
		f.Code = uint32(rapid.SampledFrom([]int{0, 8, 1, 5}).Draw(t, "code"))
		if rapid.IntRange(0, 2).Draw(t, "xf") == 0 {
			f.X = rapid.SampledFrom([]byte{0x01, 0x02, 0x04, 0x08, 0x10, 0x20, 0x40, 0x80, 0xff}).Draw(t, "x")
		}
		f.Fix = rapid.IntRange(0, 4).Draw(t, "fix") != 0
		c.Frames = append(c.Frames, f)
	}
	return c
}

// ---- bounded-exhaustive lane: every sequence of up to 3 (thorough: a seed-chosen quarter of those of 4) frames over
// a fixed alphabet of (frame, stream slot) symbols, with immediate and with gated handlers. No steering (Fix=false):
// the sequences are exactly what the alphabet spells.
var c08Alphabet = func() []c08Frame {
	var a []c08Frame
	for _, es := range []bool{false, true} {
		for _, eh := range []bool{false, true} {
			a = append(a, c08Frame{K: "H", Slot: 5, ES: es, EH: eh}) // new stream
		}
	}
	a = append(a,
		c08Frame{K: "H", Slot: 0, ES: true, EH: true},  // trailers / HEADERS on a stream that is not idle
		c08Frame{K: "H", Slot: 0, ES: false, EH: true}, // second HEADERS without END_STREAM
		c08Frame{K: "H", Slot: 0, ES: true, EH: false}, // trailers to be continued
		c08Frame{K: "H", Slot: 6, ES: true, EH: true},  // new id skipping one
		c08Frame{K: "H", Slot: 7, ES: true, EH: true},  // lower never-used id (implicitly closed once one was skipped)
		c08Frame{K: "H", Slot: 8, ES: true, EH: true},  // even id
		c08Frame{K: "H", Slot: 9, ES: true, EH: true},  // stream 0
		c08Frame{K: "H", Slot: 5, ES: true, EH: true, Prio: 2},
		c08Frame{K: "H", Slot: 5, ES: false, EH: true, Prio: 1, Padded: true},
		c08Frame{K: "C", Slot: 0, EH: true}, c08Frame{K: "C", Slot: 0, EH: false}, c08Frame{K: "C", Slot: 5, EH: true},
		c08Frame{K: "D", Slot: 0, ES: true}, c08Frame{K: "D", Slot: 0, ES: false}, c08Frame{K: "D", Slot: 0, ES: true, Empty: true, Padded: true},
		c08Frame{K: "D", Slot: 1, ES: true}, c08Frame{K: "D", Slot: 5}, c08Frame{K: "D", Slot: 7}, c08Frame{K: "D", Slot: 9},
		c08Frame{K: "R", Slot: 0, Code: 8}, c08Frame{K: "R", Slot: 1, Code: 0}, c08Frame{K: "R", Slot: 5, Code: 8}, c08Frame{K: "R", Slot: 7, Code: 8}, c08Frame{K: "R", Slot: 9, Code: 8},
		c08Frame{K: "W", Slot: 0, Incr: 0}, c08Frame{K: "W", Slot: 0, Incr: 1}, c08Frame{K: "W", Slot: 0, Incr: 2}, c08Frame{K: "W", Slot: 0, Incr: 3},
		c08Frame{K: "W", Slot: 9, Incr: 0}, c08Frame{K: "W", Slot: 9, Incr: 2}, c08Frame{K: "W", Slot: 9, Incr: 3}, c08Frame{K: "W", Slot: 5, Incr: 1}, c08Frame{K: "W", Slot: 7, Incr: 1},
		c08Frame{K: "P", Slot: 0, Prio: 1}, c08Frame{K: "P", Slot: 0, Prio: 2}, c08Frame{K: "P", Slot: 5, Prio: 1}, c08Frame{K: "P", Slot: 7, Prio: 1}, c08Frame{K: "P", Slot: 9, Prio: 1},
		c08Frame{K: "PING", Slot: 9}, c08Frame{K: "PING", Slot: 8}, c08Frame{K: "SET", Slot: 9}, c08Frame{K: "SET", Slot: 8}, c08Frame{K: "U", Slot: 0}, c08Frame{K: "U", Slot: 9},
		c08Frame{K: "REL", Slot: 0},
	)
	return a
}()

// c08EnumAt maps an index to a case: lengths 1, 2, 3, 4 in that order, each length twice (ungated, gated; length 4 ungated only).
func c08EnumSizes() (n1, n2, n3, n4 int) {
	k := len(c08Alphabet)
	return 2 * k, 2 * k * k, 2 * k * k * k, k * k * k * k
}

func c08EnumAt(i int) c08Case {
	k := len(c08Alphabet)
	n1, n2, n3, _ := c08EnumSizes()
	length, gatedBoth := 1, true
	switch {
	case i < n1:
	case i < n1+n2:
		i, length = i-n1, 2
	case i < n1+n2+n3:
		i, length = i-n1-n2, 3
	default:
		i, length, gatedBoth = i-n1-n2-n3, 4, false
	}
	c := c08Case{}
	if gatedBoth {
		c.Gated = i%2 == 1
		i /= 2
	}
	for j := 0; j < length; j++ {
		c.Frames = append(c.Frames, c08Alphabet[i%k])
		i /= k
	}
	return c
}

func TestC08(t *testing.T) {
	s := newSuite(t, "C08",
		"sequences of 1..14 frames over {HEADERS(+/-END_STREAM,+/-END_HEADERS, priority none/other/self, padded), CONTINUATION, DATA(+/-END_STREAM, empty, padded), RST_STREAM, WINDOW_UPDATE(0 / small / up to exactly 2^31-1 / one past), PRIORITY(other/self), PING, SETTINGS, unknown types, handler release}, each with optional undefined flag bits, addressed to stream slots {existing streams by age, next new id, new id skipping one, a lower never-used id, an even id, stream 0}; handlers immediate or gated; lock-step with quiescence (hook counters) after every frame. Oracle = reaction model of RFC 7540 5.1/6 (DESIGN appendix A): the observed reaction (nothing / ACK / RST_STREAM code / GOAWAY code / close) must be in the set the RFC allows for (stream state, frame); legal sequences raise no error; handler invocations equal the requests completed by legal sequences, with the body carried by legal DATA frames; the model follows the observed reaction. Non-trivial = >=3 distinct (frame kind, stream state) pairs including a non-open state; distinct by case hash.",
		"frame-size malformations are C16/C10 material and not generated here", "MAX_CONCURRENT_STREAMS is never reached (refusal is C09/C13/C18 material)")
	defer s.finish()
	runLane(s, Lane[c08Case]{Name: "states", Journal: true, Quick: 40000, Thor: 3000000, Gen: c08Gen, Run: c08Run})
	n1, n2, n3, n4 := c08EnumSizes()
	runEnum(s, EnumLane[c08Case]{Name: "enum3", Journal: true, N: n1 + n2 + n3, Head: n1 + n2, At: c08EnumAt, Run: c08Run, QuickStride: 23, ThorStride: 1})
	runEnum(s, EnumLane[c08Case]{Name: "enum4", Journal: true, N: n4, At: func(i int) c08Case { return c08EnumAt(n1 + n2 + n3 + i) }, Run: c08Run, QuickStride: -1, ThorStride: 16})
}
