package props

import (
	"bytes"
	"encoding/hex"
	"fmt"
	"runtime"
	"sync"
	"sync/atomic"
	"testing"

	"github.com/dgrr/http2"
	"golang.org/x/net/http2/hpack"
	"pgregory.net/rapid"

	"verif/harness/ev"
	"verif/harness/refhpack"
)

// C15 — Huffman coding is the RFC 7541 code: lossless, canonical, strict.

type c15Case struct {
	Op  string `json:"op"`  // "enc" (Hex is the plain string) or "dec" (Hex is the coded input)
	Hex string `json:"hex"` //
	Pre string `json:"pre"` // bytes already in dst (must be preserved)
}

func c15HasLong(s []byte) bool {
	for _, b := range s {
		if refhpack.HuffLen[b] > 8 {
			return true
		}
	}
	return false
}

// c15Run is the oracle for one input; it is also the replay entry point.
func c15Run(c c15Case) Outcome {
	in, err := hex.DecodeString(c.Hex)
	if err != nil {
		return Outcome{Inconcl: "bad hex"}
	}
	pre := []byte(c.Pre)
	switch c.Op {
	case "enc":
		want := refhpack.HuffEncode(in)
		if xn := hpack.AppendHuffmanString(nil, string(in)); !bytes.Equal(xn, want) {
			return Outcome{Inconcl: "references disagree on encoding"}
		}
		got := http2.HuffmanEncode(append([]byte(nil), pre...), in)
		if !bytes.HasPrefix(got, pre) || !bytes.Equal(got[len(pre):], want) {
			return fail("enc-mismatch", "HuffmanEncode(%x) = %x, RFC 7541 code is %x", in, got[min(len(pre), len(got)):], want)
		}
		back, derr := http2.HuffmanDecode(append([]byte(nil), pre...), want)
		if derr != nil {
			return fail("roundtrip-reject", "HuffmanDecode(encode(%x)) failed: %v", in, derr)
		}
		if !bytes.HasPrefix(back, pre) || !bytes.Equal(back[len(pre):], in) {
			return fail("roundtrip-mismatch", "decode(encode(%x)) = %x", in, back)
		}
		return Outcome{NonTrivial: c15HasLong(in)}
	case "dec":
		want, werr := refhpack.HuffDecode(in)
		got, gerr := http2.HuffmanDecode(append([]byte(nil), pre...), in)
		if (werr == nil) != (gerr == nil) {
			if werr == nil {
				return fail("dec-reject-valid", "HuffmanDecode(%x) failed (%v) but input is valid and decodes to %x", in, gerr, want)
			}
			return fail("dec-accept-invalid", "HuffmanDecode(%x) = %x but RFC 7541 5.2 makes the input invalid", in, got)
		}
		if werr == nil && (!bytes.HasPrefix(got, pre) || !bytes.Equal(got[len(pre):], want)) {
			return fail("dec-mismatch", "HuffmanDecode(%x) = %x, want %x", in, got, want)
		}
		return Outcome{NonTrivial: werr != nil || c15HasLong(want)}
	}
	return Outcome{Inconcl: "bad op"}
}

// fast paths used by the enumerations (no hex, no allocation of cases)
func c15DecFast(in []byte, scratch []byte) (ok bool, nontrivial bool) {
	want, werr := refhpack.HuffDecode(in)
	got, gerr := http2.HuffmanDecode(scratch[:0], in)
	if (werr == nil) != (gerr == nil) {
		return false, true
	}
	if werr == nil && !bytes.Equal(got, want) {
		return false, true
	}
	return true, werr != nil || c15HasLong(want)
}

func c15Enumerate(s *suite, name string, total int, each func(worker, i int, scratch []byte) (ok bool, nt bool, c c15Case)) {
	workers := runtime.GOMAXPROCS(0)
	sh, ns := shard()
	var wg sync.WaitGroup
	var evals, nts atomic.Int64
	var mu sync.Mutex
	var firstBad *c15Case
	for w := 0; w < workers; w++ {
		wg.Add(1)
		go func(w int) {
			defer wg.Done()
			scratch := make([]byte, 0, 64)
			var e, n int64
			for i := w; i < total; i += workers {
				if i%ns != sh {
					continue
				}
				ok, nt, c := each(w, i, scratch)
				e++
				if nt {
					n++
				}
				if !ok {
					mu.Lock()
					if firstBad == nil {
						cc := c
						firstBad = &cc
					}
					mu.Unlock()
				}
			}
			evals.Add(e)
			nts.Add(n)
		}(w)
	}
	wg.Wait()
	s.rec.Bulk(evals.Load(), nts.Load(), "enum:"+name)
	if firstBad != nil {
		o := c15Run(*firstBad)
		if o.Fail == "" {
			o = fail("enum-mismatch", "enumeration %s disagreed on %+v", name, *firstBad)
		}
		s.violation("single", *firstBad, o)
	}
}

func TestC15(t *testing.T) {
	s := newSuite(t, "C15",
		"exhaustive: every plain string of length 0..2 through HuffmanEncode and back, every coded input of length 0..3 (thorough: +all 4-byte inputs starting 0xfe/0xff) through HuffmanDecode, each compared with an RFC 7541 reference coder whose table is recovered from x/net; rapid: long strings over all 256 symbols, tail-mutated encodings, arbitrary bytes. Non-trivial = input the reference rejects, or a string containing a symbol whose code is longer than 8 bits; distinct by input bytes.",
		"x/net hpack Huffman table is RFC 7541 Appendix B (also self-checked: prefix-free, Kraft sum 1 with the 30-bit EOS)")
	defer s.finish()

	runLane(s, Lane[c15Case]{Name: "single", Run: c15Run})
	if wantLane("enum") && !isReplay() {
		// (1) encoder, all strings of length 0..2
		c15Enumerate(s, "enc-len<=2", 1+256+65536, func(_ int, i int, _ []byte) (bool, bool, c15Case) {
			var in []byte
			switch {
			case i == 0:
			case i <= 256:
				in = []byte{byte(i - 1)}
			default:
				j := i - 257
				in = []byte{byte(j >> 8), byte(j)}
			}
			c := c15Case{Op: "enc", Hex: hex.EncodeToString(in)}
			o := c15Run(c)
			return o.Fail == "" && o.Inconcl == "", o.NonTrivial, c
		})
		// (2) decoder, all inputs of length 0..3
		c15Enumerate(s, "dec-len<=3", 1+256+65536+1<<24, func(_ int, i int, scratch []byte) (bool, bool, c15Case) {
			var buf [3]byte
			var in []byte
			switch {
			case i == 0:
			case i <= 256:
				buf[0] = byte(i - 1)
				in = buf[:1]
			case i <= 256+65536:
				j := i - 257
				buf[0], buf[1] = byte(j>>8), byte(j)
				in = buf[:2]
			default:
				j := i - 257 - 65536
				buf[0], buf[1], buf[2] = byte(j>>16), byte(j>>8), byte(j)
				in = buf[:3]
			}
			ok, nt := c15DecFast(in, scratch)
			if !ok {
				return false, nt, c15Case{Op: "dec", Hex: hex.EncodeToString(in)}
			}
			return true, nt, c15Case{}
		})
		s.rec.SetExhaustive(true)
		if ev.Tier() == "thorough" {
			// (3) 4-byte inputs that start inside the long codes
			c15Enumerate(s, "dec-len4-fe/ff", 2<<24, func(_ int, i int, scratch []byte) (bool, bool, c15Case) {
				in := [4]byte{0xfe + byte(i>>24), byte(i >> 16), byte(i >> 8), byte(i)}
				ok, nt := c15DecFast(in[:], scratch)
				if !ok {
					return false, nt, c15Case{Op: "dec", Hex: hex.EncodeToString(in[:])}
				}
				return true, nt, c15Case{}
			})
		}
		// reference cross-check against x/net on a slice of the space
		for i := 0; i < 1<<16; i++ {
			in := []byte{byte(i >> 8), byte(i), byte(i * 31)}
			_, e1 := refhpack.HuffDecode(in)
			_, e2 := hpack.HuffmanDecodeToString(in)
			if (e1 == nil) != (e2 == nil) {
				t.Fatalf("INCONCLUSIVE: reference decoder and x/net disagree on %x (%v vs %v)", in, e1, e2)
			}
		}
	}

	symGen := rapid.OneOf(rapid.Byte(), rapid.ByteRange(0, 31), rapid.ByteRange(127, 255), rapid.SampledFrom([]byte{0, 10, 13, 22, 127, 249, 255, '0', 'a', ' '}))
	runLane(s, Lane[c15Case]{Name: "roundtrip", Quick: 20000, Thor: 2000000,
		Gen: func(t *rapid.T) c15Case {
			n := rapid.OneOf(rapid.IntRange(0, 40), rapid.IntRange(0, 4096)).Draw(t, "n")
			b := rapid.SliceOfN(symGen, n, n).Draw(t, "s")
			pre := rapid.SampledFrom([]string{"", "", "x", "prefix"}).Draw(t, "pre")
			return c15Case{Op: "enc", Hex: hex.EncodeToString(b), Pre: pre}
		}, Run: c15Run})

	runLane(s, Lane[c15Case]{Name: "strict", Quick: 60000, Thor: 4000000,
		Gen: func(t *rapid.T) c15Case {
			b := rapid.SliceOfN(symGen, 0, 40).Draw(t, "s")
			enc := refhpack.HuffEncode(b)
			switch rapid.IntRange(0, 6).Draw(t, "mut") {
			case 0: // flip a bit in the last byte
				if len(enc) > 0 {
					enc[len(enc)-1] ^= 1 << uint(rapid.IntRange(0, 7).Draw(t, "bit"))
				}
			case 1: // append 0xff bytes (over-long padding / EOS)
				k := rapid.IntRange(1, 5).Draw(t, "k")
				enc = append(enc, bytes.Repeat([]byte{0xff}, k)...)
			case 2: // EOS in the middle
				tail := refhpack.HuffEncode(rapid.SliceOfN(symGen, 0, 8).Draw(t, "t"))
				enc = append(append(enc, 0xff, 0xff, 0xff, 0xff), tail...)
			case 3: // truncate
				if len(enc) > 0 {
					enc = enc[:rapid.IntRange(0, len(enc)-1).Draw(t, "cut")]
				}
			case 4: // zero padding
				if len(enc) > 0 {
					enc[len(enc)-1] &^= byte(1<<uint(rapid.IntRange(1, 7).Draw(t, "z")) - 1)
				}
			case 5: // flip any bit
				if len(enc) > 0 {
					i := rapid.IntRange(0, len(enc)-1).Draw(t, "i")
					enc[i] ^= 1 << uint(rapid.IntRange(0, 7).Draw(t, "bit"))
				}
			}
			return c15Case{Op: "dec", Hex: hex.EncodeToString(enc)}
		}, Run: c15Run})

	runLane(s, Lane[c15Case]{Name: "bytes", Quick: 40000, Thor: 4000000,
		Gen: func(t *rapid.T) c15Case {
			b := rapid.SliceOfN(rapid.OneOf(rapid.Byte(), rapid.SampledFrom([]byte{0xff, 0xfe, 0xfc, 0x00, 0x7f})), 0, 64).Draw(t, "b")
			return c15Case{Op: "dec", Hex: hex.EncodeToString(b), Pre: rapid.SampledFrom([]string{"", "p"}).Draw(t, "pre")}
		}, Run: c15Run})
}

func FuzzC15(f *testing.F) {
	for _, s := range []string{"", "ff", "ffffffff", "fe", "a8eb10649cbf", "00", "1c", "f8", "ffc7", "fffffffc"} {
		b, _ := hex.DecodeString(s)
		f.Add(b, true)
		f.Add(b, false)
	}
	f.Fuzz(func(t *testing.T, b []byte, dec bool) {
		op := "enc"
		if dec {
			op = "dec"
		}
		c := c15Case{Op: op, Hex: hex.EncodeToString(b)}
		if o := c15Run(c); o.Fail != "" {
			fuzzViolation("C15", "single", c, o)
			t.Fatalf("%s", o.Fail)
		}
	})
}

var _ = fmt.Sprintf
