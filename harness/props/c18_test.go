package props

import (
	"fmt"
	"strings"
	"testing"

	"pgregory.net/rapid"

	"verif/harness/peer"
	"verif/harness/rawframe"
	"verif/harness/refhpack"
	"verif/harness/speer"
)

// C18 — SETTINGS are acknowledged in order and the peer's limits are obeyed from then on.

type c18Op struct {
	K       string      `json:"k"`             // "settings", "request", "bigframe"
	Set     [][2]uint32 `json:"set,omitempty"` // settings to send
	HdrSize int         `json:"hdr,omitempty"` // request: size of the response's header list (one big field) / request header value
	Body    int         `json:"body,omitempty"`
	N       int         `json:"n,omitempty"`
}

type c18Case struct {
	Ops []c18Op `json:"ops"`
}

func c18InvalidSetting(kv [][2]uint32) (bool, uint32) {
	for _, s := range kv {
		switch s[0] {
		case 2:
			if s[1] > 1 {
				return true, ecProtocol
			}
		case 4:
			if s[1] > 1<<31-1 {
				return true, ecFlow
			}
		case 5:
			if s[1] < 16384 || s[1] > 1<<24-1 {
				return true, ecProtocol
			}
		}
	}
	return false, 0
}

// ---- server role -----------------------------------------------------------

func c18ServerRun(c c18Case) Outcome {
	resps := map[string]peer.Resp{}
	for i, op := range c.Ops {
		if op.K == "request" {
			var fs []refhpack.Field
			if op.HdrSize > 0 {
				fs = append(fs, refhpack.Field{Name: "x-big", Value: strings.Repeat("h", op.HdrSize)})
			}
			fs = append(fs, refhpack.Field{Name: "x-small", Value: fmt.Sprintf("v%d", i%3)})
			resps[fmt.Sprintf("t%d", i)] = peer.Resp{Status: 200, Fields: fs, BodyLen: op.Body}
		}
	}
	h := peer.Start(peer.Config{MaxConcurrentStreams: 100, MaxRequestBodySize: 1 << 20, Responses: resps})
	defer h.Close()
	h.SendSettings(nil)
	if ok, d := h.Quiesce(); !ok {
		return Outcome{Inconcl: "no quiescence at the start: " + d}
	}
	settingsSent := 1
	id := uint32(1)
	traffic, between := 0, false
	straddle := false
	countAcks := func() int {
		n := 0
		for _, e := range h.EventsCopy() {
			if e.Kind == "settingsack" {
				n++
			}
		}
		return n
	}
	for oi, op := range c.Ops {
		where := fmt.Sprintf("op %d %s", oi, op.K)
		switch op.K {
		case "settings":
			invalid, code := c18InvalidSetting(op.Set)
			h.SendSettings(op.Set)
			settingsSent++
			if traffic > 0 {
				between = true
			}
			if ok, d := h.Quiesce(); !ok {
				return Outcome{Inconcl: "no quiescence after SETTINGS: " + d}
			}
			evs := h.EventsCopy()
			if invalid {
				gas := peer.GoAways(evs)
				if len(gas) == 0 && !peer.HasEOF(evs) {
					return fail("invalid-settings-accepted", "%s: SETTINGS %v carries an invalid value but the server neither sent GOAWAY nor closed", where, op.Set)
				}
				if len(gas) > 0 && gas[0].Code != code {
					return fail("invalid-settings-code", "%s: SETTINGS %v answered with GOAWAY(%s), RFC 7540 6.5.2 says %s", where, op.Set, peer.CodeName(gas[0].Code), peer.CodeName(code))
				}
				return Outcome{NonTrivial: between, Classes: []string{"invalid-settings"}}
			}
			if a := countAcks(); a != settingsSent {
				return fail("ack-count", "%s: %d SETTINGS frames sent so far, %d acknowledged (the server is quiescent)", where, settingsSent, a)
			}
		case "request":
			tag := fmt.Sprintf("t%d", oi)
			sendReq(h, id, simpleReq(tag))
			sid := id
			id += 2
			traffic++
			for round := 0; round < 6; round++ {
				if ok, d := h.Quiesce(); !ok {
					return Outcome{Inconcl: "no quiescence after a request: " + d}
				}
				g := peer.Assemble(h.EventsCopy())[sid]
				if g != nil && (g.EndStream > 0 || g.Rst) {
					break
				}
				if sw, cw := h.Windows(sid); true {
					if sw < 1<<20 {
						h.SendWindowUpdate(sid, uint32(1<<20-sw))
					}
					if cw < 1<<20 {
						h.SendWindowUpdate(0, uint32(1<<20-cw))
					}
				}
			}
			evs := h.EventsCopy()
			if ga := peer.GoAways(evs); len(ga) > 0 {
				return fail("goaway", "%s: GOAWAY(%s, %q)", where, peer.CodeName(ga[0].Code), ga[0].Debug)
			}
			if v := h.FlowViolation(); v != "" {
				return fail("limit-exceeded", "%s: %s", where, v)
			}
			for _, e := range evs {
				if e.Kind == "headers" && int64(e.Length) > e.Limit {
					return fail("headers-frame-too-large", "%s: a HEADERS/CONTINUATION frame of %d octets was sent; our SETTINGS_MAX_FRAME_SIZE is %d (header block of stream %d spread over %d frames)", where, e.Length, e.Limit, e.Stream, e.Frames)
				}
			}
			if int64(op.HdrSize) > h.MaxFrame-200 {
				straddle = true
			}
			if msg := checkGot(tag, resps[tag], peer.Assemble(evs)[sid]); msg != "" {
				return fail("response", "%s: %s", where, msg)
			}
		case "bigframe":
			// the server advertises the default MAX_FRAME_SIZE (16384) whatever we advertise
			sid := id
			id += 2
			r := simpleReq(fmt.Sprintf("big%d", oi))
			r.Method = "POST"
			_ = h.Write(peer.SplitBlock(sid, h.EncodeBlock(nil, r.HeaderList()), nil, false, 0, false, 0, false, 0)[0])
			_ = h.Write(rawframe.Append(nil, rawframe.Data, rawframe.FlagEndStream, sid, make([]byte, 16385+op.N%3000)))
			if ok, d := h.Quiesce(); !ok {
				return Outcome{Inconcl: "no quiescence after the oversized frame: " + d}
			}
			evs := h.EventsCopy()
			gas := peer.GoAways(evs)
			if len(gas) == 0 && !peer.HasEOF(evs) {
				return fail("own-max-frame-size-not-enforced", "%s: a DATA frame of %d octets was accepted although the server advertises SETTINGS_MAX_FRAME_SIZE 16384 (we had advertised %d for our side)", where, 16385+op.N%3000, h.MaxFrame)
			}
			if len(gas) > 0 && gas[0].Code != ecFrameSize {
				return fail("own-max-frame-size-code", "%s: oversized frame answered with GOAWAY(%s)", where, peer.CodeName(gas[0].Code))
			}
			return Outcome{NonTrivial: true, Classes: []string{"oversized-inbound"}}
		}
	}
	if a := countAcks(); a != settingsSent {
		return fail("ack-count", "at the end: %d SETTINGS frames sent, %d acknowledged", settingsSent, a)
	}
	cls := []string{}
	if between {
		cls = append(cls, "settings-between-traffic")
	}
	if straddle {
		cls = append(cls, "straddling-header-block")
	}
	return Outcome{NonTrivial: between && settingsSent >= 3 || straddle, Classes: cls}
}

func c18GenSettings(t *rapid.T, valid bool) [][2]uint32 {
	n := rapid.IntRange(0, 4).Draw(t, "nset")
	var kv [][2]uint32
	for i := 0; i < n; i++ {
		id := uint32(rapid.SampledFrom([]int{1, 1, 2, 3, 4, 4, 5, 5, 6, 7, 0xff}).Draw(t, "sid"))
		var v uint32
		switch id {
		case 1:
			v = rapid.SampledFrom([]uint32{0, 1, 100, 4096, 4097, 8192, 65536}).Draw(t, "tbl")
		case 2:
			v = uint32(rapid.IntRange(0, 1).Draw(t, "push"))
			if !valid && rapid.Bool().Draw(t, "badpush") {
				v = 2
			}
		case 3:
			v = rapid.SampledFrom([]uint32{0, 1, 5, 100, 1 << 31}).Draw(t, "mcs")
		case 4:
			v = rapid.SampledFrom([]uint32{0, 1, 100, 65535, 65536, 1 << 20, 1<<31 - 1}).Draw(t, "win")
			if !valid && rapid.Bool().Draw(t, "badwin") {
				v = 1 << 31
			}
		case 5:
			v = rapid.SampledFrom([]uint32{16384, 16385, 20000, 65536, 1<<24 - 1}).Draw(t, "mfs")
			if !valid && rapid.Bool().Draw(t, "badmfs") {
				v = rapid.SampledFrom([]uint32{0, 100, 16383, 1 << 24}).Draw(t, "badmfsv")
			}
		default:
			v = rapid.Uint32().Draw(t, "val")
		}
		kv = append(kv, [2]uint32{id, v})
	}
	return kv
}

func c18Gen(t *rapid.T) c18Case {
	var c c18Case
	n := rapid.IntRange(1, 8).Draw(t, "nops")
	for i := 0; i < n; i++ {
		switch rapid.IntRange(0, 9).Draw(t, "k") {
		case 0, 1, 2, 3:
			c.Ops = append(c.Ops, c18Op{K: "settings", Set: c18GenSettings(t, true)})
		case 4:
			if i == n-1 {
				c.Ops = append(c.Ops, c18Op{K: "settings", Set: c18GenSettings(t, false)})
			} else {
				c.Ops = append(c.Ops, c18Op{K: "settings", Set: c18GenSettings(t, true)})
			}
		case 5:
			if i == n-1 {
				c.Ops = append(c.Ops, c18Op{K: "bigframe", N: rapid.IntRange(0, 5000).Draw(t, "n")})
			} else {
				c.Ops = append(c.Ops, c18Op{K: "request", HdrSize: 10, Body: 10})
			}
		default:
			c.Ops = append(c.Ops, c18Op{K: "request",
				HdrSize: rapid.OneOf(rapid.IntRange(0, 200), rapid.SampledFrom([]int{16000, 16300, 16384, 16500, 20000, 40000, 65000})).Draw(t, "hdr"),
				Body:    rapid.SampledFrom([]int{0, 10, 20000, 70000}).Draw(t, "body")})
		}
	}
	return c
}

// ---- client role -----------------------------------------------------------

type c18CCase struct {
	First [][2]uint32 `json:"first"` // the server's first SETTINGS
	Ops   []c18Op     `json:"ops"`   // settings / request (HdrSize = request header value size, N = concurrent requests) / push
}

func c18ClientRun(c c18CCase) Outcome {
	env, err := speer.NewEnv(clientOpts(), speer.ConnPlan{Settings: c.First})
	if err != nil {
		if inv, _ := c18InvalidSetting(c.First); inv {
			return Outcome{NonTrivial: true, Classes: []string{"invalid-first-settings-refused"}}
		}
		return Outcome{Inconcl: "cannot set the client up: " + err.Error()}
	}
	defer env.Close()
	sc := env.Conn(0)
	if sc == nil {
		return Outcome{Inconcl: "no connection"}
	}
	if ok, d := env.Quiesce(); !ok {
		return Outcome{Inconcl: "no quiescence at the start: " + d}
	}
	// the client's own first SETTINGS must say that push is off
	pushOff := false
	for _, e := range sc.EventsCopy() {
		if e.Kind == "settings" {
			for _, s := range e.Settings {
				if s[0] == 2 && s[1] == 0 {
					pushOff = true
				}
			}
			break
		}
	}
	if !pushOff {
		return fail("enable-push-not-sent", "the client's first SETTINGS frame does not carry SETTINGS_ENABLE_PUSH=0 although it treats PUSH_PROMISE as a connection error")
	}
	seq := 0
	between, straddle := false, false
	traffic := 0
	var pendingCalls []*speer.Call
	answer := func() *Outcome {
		// answer every complete request that has not been answered yet
		for round := 0; round < 8; round++ {
			if ok, d := env.Quiesce(); !ok {
				return &Outcome{Inconcl: "no quiescence while answering: " + d}
			}
			did := false
			for _, s2 := range env.ConnsCopy() {
				got := peer.Assemble(s2.EventsCopy())
				for sid, g := range got {
					if g.EndStream > 0 && !s2.Answered(sid) && sid%2 == 1 {
						s2.MarkAnswered(sid)
						blk := s2.EncodeBlock(nil, []peer.FieldSpec{{F: refhpack.Field{Name: ":status", Value: "200"}, R: refhpack.Rep{Kind: 0}}})
						_ = s2.Write(peer.SplitBlock(sid, blk, nil, true, 0, false, 0, false, 0)[0])
						s2.StreamDone(sid)
						did = true
					} else if g.EndStream == 0 && !g.Rst && sid%2 == 1 {
						sw, _ := s2.Windows(sid)
						if sw < 1<<20 {
							s2.SendWindowUpdate(sid, uint32(1<<20-sw))
							did = true
						}
					}
				}
				_, cw := s2.Windows(0)
				if cw < 1<<20 {
					s2.SendWindowUpdate(0, uint32(1<<21-cw))
					did = true
				}
			}
			if !did {
				break
			}
		}
		return nil
	}
	judge := func(where string) *Outcome {
		for _, s2 := range env.ConnsCopy() {
			f, cv := s2.Violations()
			if f != "" || cv != "" {
				o := fail("limit-exceeded", "%s: connection %d: %s%s", where, s2.Index, f, cv)
				return &o
			}
			for _, e := range s2.EventsCopy() {
				if e.Kind == "headers" {
					if e.HdrErr != "" {
						o := fail("header-table", "%s: connection %d: request header block on stream %d does not decode under the limits we set: %s", where, s2.Index, e.Stream, e.HdrErr)
						return &o
					}
					if int64(e.Length) > e.Limit {
						o := fail("headers-frame-too-large", "%s: connection %d: a HEADERS/CONTINUATION frame of %d octets was sent; our SETTINGS_MAX_FRAME_SIZE was %d at that point", where, s2.Index, e.Length, e.Limit)
						return &o
					}
				}
			}
			sent, acks := s2.AckInfo()
			if !peer.HasEOF(s2.EventsCopy()) && acks != sent {
				o := fail("ack-count", "%s: connection %d: %d SETTINGS frames sent, %d acknowledged (the client is quiescent)", where, s2.Index, sent, acks)
				return &o
			}
		}
		return nil
	}
	for oi, op := range c.Ops {
		where := fmt.Sprintf("op %d %s", oi, op.K)
		switch op.K {
		case "settings":
			invalid, _ := c18InvalidSetting(op.Set)
			sc.SendSettings(op.Set)
			if traffic > 0 {
				between = true
			}
			if ok, d := env.Quiesce(); !ok {
				return Outcome{Inconcl: "no quiescence after SETTINGS: " + d}
			}
			if invalid {
				// the client must stop using the connection: a new request goes elsewhere or fails
				before := len(sc.EventsCopy())
				call := env.Do(speer.ReqSpec{Tag: "afterbad", Method: "GET", Path: "/afterbad"})
				if o := answer(); o != nil {
					return *o
				}
				for _, e := range sc.EventsCopy()[before:] {
					if e.Kind == "headers" {
						return fail("invalid-settings-accepted", "%s: SETTINGS %v carries an invalid value but the client opened stream %d on that connection afterwards", where, op.Set, e.Stream)
					}
				}
				_ = call
				return Outcome{NonTrivial: between, Classes: []string{"invalid-settings"}}
			}
		case "request":
			n := op.N
			if n < 1 {
				n = 1
			}
			for k := 0; k < n; k++ {
				seq++
				tag := fmt.Sprintf("r%d", seq)
				r := speer.ReqSpec{Tag: tag, Method: "POST", Path: "/" + tag, BodyLen: op.Body}
				if op.HdrSize > 0 {
					r.Fields = []refhpack.Field{{Name: "x-big", Value: strings.Repeat("q", op.HdrSize)}}
				}
				r.Fields = append(r.Fields, refhpack.Field{Name: "x-small", Value: fmt.Sprintf("v%d", seq%3)})
				pendingCalls = append(pendingCalls, env.Do(r))
			}
			traffic++
			if int64(op.HdrSize) > sc.MaxFrame-200 {
				straddle = true
			}
			// look at the concurrency before anything is answered
			if ok, d := env.Quiesce(); !ok {
				return Outcome{Inconcl: "no quiescence after the requests: " + d}
			}
			if o := judge(where); o != nil {
				return *o
			}
			if o := answer(); o != nil {
				return *o
			}
			for _, call := range pendingCalls {
				if !call.Finished() {
					return fail("unresolved", "%s: request %s was never resolved although every request that reached a server was answered", where, call.Tag)
				}
			}
			pendingCalls = nil
		case "push":
			_ = sc.Write(rawframe.Append(nil, rawframe.PushPromise, rawframe.FlagEndHeaders, 1, append(rawframe.U32(2), 0x82, 0x87, 0x84)))
			if ok, d := env.Quiesce(); !ok {
				return Outcome{Inconcl: "no quiescence after PUSH_PROMISE: " + d}
			}
			before := len(sc.EventsCopy())
			_ = env.Do(speer.ReqSpec{Tag: "afterpush", Method: "GET", Path: "/afterpush"})
			if o := answer(); o != nil {
				return *o
			}
			for _, e := range sc.EventsCopy()[before:] {
				if e.Kind == "headers" {
					return fail("push-accepted", "%s: the client advertises ENABLE_PUSH=0 but kept using the connection after a PUSH_PROMISE (opened stream %d)", where, e.Stream)
				}
			}
			return Outcome{NonTrivial: true, Classes: []string{"push-promise"}}
		}
		if o := judge(where); o != nil {
			return *o
		}
	}
	cls := []string{}
	if between {
		cls = append(cls, "settings-between-traffic")
	}
	if straddle {
		cls = append(cls, "straddling-header-block")
	}
	return Outcome{NonTrivial: between || straddle, Classes: cls}
}

func c18CGen(t *rapid.T) c18CCase {
	c := c18CCase{First: c18GenSettings(t, true)}
	n := rapid.IntRange(1, 7).Draw(t, "nops")
	for i := 0; i < n; i++ {
		switch rapid.IntRange(0, 9).Draw(t, "k") {
		case 0, 1, 2:
			c.Ops = append(c.Ops, c18Op{K: "settings", Set: c18GenSettings(t, true)})
		case 3:
			if i == n-1 {
				c.Ops = append(c.Ops, c18Op{K: "settings", Set: c18GenSettings(t, false)})
			} else {
				c.Ops = append(c.Ops, c18Op{K: "settings", Set: c18GenSettings(t, true)})
			}
		case 4:
			if i == n-1 {
				c.Ops = append(c.Ops, c18Op{K: "push"})
			} else {
				c.Ops = append(c.Ops, c18Op{K: "request", N: 1})
			}
		default:
			c.Ops = append(c.Ops, c18Op{K: "request", N: rapid.IntRange(1, 6).Draw(t, "n"),
				HdrSize: rapid.OneOf(rapid.IntRange(0, 200), rapid.SampledFrom([]int{16000, 16384, 16500, 20000, 40000})).Draw(t, "hdr"),
				Body:    rapid.SampledFrom([]int{0, 10, 20000}).Draw(t, "body")})
		}
	}
	return c
}

func TestC18(t *testing.T) {
	s := newSuite(t, "C18",
		"server role: 1..8 operations {SETTINGS with 0..4 parameters from all six ids plus unknown ids, boundary and zero values (the last one possibly invalid: ENABLE_PUSH 2, INITIAL_WINDOW_SIZE 2^31, MAX_FRAME_SIZE outside its range); request whose response header list is 0..65000 octets and body 0..70000, straddling whatever MAX_FRAME_SIZE we advertised; a DATA frame over the server's own advertised MAX_FRAME_SIZE}, lock-step. Oracle: acknowledgements == SETTINGS sent at every quiescent point; invalid value -> GOAWAY with the RFC's code or close; no frame (HEADERS and CONTINUATION included) longer than our MAX_FRAME_SIZE; response header blocks decode under a strict reference decoder sized to our HEADER_TABLE_SIZE (a lowered size must be announced); an inbound frame over the server's own limit is a FRAME_SIZE_ERROR. client role: the same for the client through RoundTrip against the scripted TLS server (first SETTINGS generated too): ACK count, DATA and HEADERS frame sizes, concurrently open streams <= our acknowledged MAX_CONCURRENT_STREAMS, request header blocks under our table size, ENABLE_PUSH=0 present in its first SETTINGS, PUSH_PROMISE or an invalid SETTINGS value stops it using the connection. Non-trivial = >=2 SETTINGS frames with traffic between them, or a header block straddling the frame size; distinct by case hash.")
	defer s.finish()
	runLane(s, Lane[c18Case]{Name: "server", Journal: true, Quick: 1500, Thor: 200000, Gen: c18Gen, Run: c18ServerRun})
	runLane(s, Lane[c18CCase]{Name: "client", Journal: true, Quick: 300, Thor: 60000, Gen: c18CGen, Run: c18ClientRun})
}
