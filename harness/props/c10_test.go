package props

import (
	"fmt"
	"strings"
	"testing"
	"time"

	"github.com/dgrr/http2"
	"pgregory.net/rapid"

	"verif/harness/peer"
	"verif/harness/rawframe"
)

// C10 — the server's GOAWAY tells the truth and connection errors end the connection.

type c10Case struct {
	Before   int    `json:"before"`   // requests answered before the offence
	InFlight int    `json:"inflight"` // requests whose handlers are parked when the offence arrives
	After    int    `json:"after"`    // requests written right behind the offence
	Off      string `json:"off"`
	Trail    string `json:"trail"`           // silent, valid, flood, noread, close
	TrailN   int    `json:"trailn"`          //
	Burst    bool   `json:"burst,omitempty"` // in-flight requests and the offence are written without waiting in between
	// Backpressure: before the in-flight requests and the offence are written (in one burst), the peer stops reading
	// and sends PINGs until the server's write queue is exactly full (hook counters: queued - written - dropped = 129),
	// so that the next frame the server wants to write, the GOAWAY included, blocks; Filler WINDOW_UPDATE frames
	// (no reply) go in front of the burst so that the stream loop lags behind the read loop. Reading resumes after
	// the burst. The GOAWAY then has to be truthful although it could not be written when the error was found.
	// AtLimit: MaxConcurrentStreams equals the number of in-flight requests, so their parked handlers hold every
	// slot; LowRefused (needs AtLimit and in-flight requests): the first in-flight request skips one stream id, and a
	// request on that lower, never-used id follows the in-flight ones: it is refused (the limit is checked first),
	// and the GOAWAY that follows must still name the highest stream that reached a handler.
	AtLimit      bool `json:"atlimit,omitempty"`
	LowRefused   bool `json:"lowrefused,omitempty"`
	Backpressure bool `json:"backpressure,omitempty"`
	Filler       int  `json:"filler,omitempty"`
}

type c10Offence struct {
	name  string
	codes []uint32
	build func(h *peer.H, open uint32, next uint32) []byte
}

const ecCompression = 9

var c10Offences = []c10Offence{
	{"frame-too-large", []uint32{ecFrameSize}, func(h *peer.H, open, next uint32) []byte {
		return rawframe.Append(nil, rawframe.Data, 0, orOne(open), make([]byte, 16385))
	}},
	{"ping-size", []uint32{ecFrameSize}, func(h *peer.H, open, next uint32) []byte {
		return rawframe.Append(nil, rawframe.Ping, 0, 0, make([]byte, 7))
	}},
	{"rst-size", []uint32{ecFrameSize}, func(h *peer.H, open, next uint32) []byte {
		return rawframe.Append(nil, rawframe.RstStream, 0, orOne(open), make([]byte, 3))
	}},
	{"window-update-size", []uint32{ecFrameSize}, func(h *peer.H, open, next uint32) []byte {
		return rawframe.Append(nil, rawframe.WindowUpdate, 0, 0, make([]byte, 3))
	}},
	{"settings-size", []uint32{ecFrameSize}, func(h *peer.H, open, next uint32) []byte {
		return rawframe.Append(nil, rawframe.Settings, 0, 0, make([]byte, 5))
	}},
	{"settings-ack-payload", []uint32{ecFrameSize}, func(h *peer.H, open, next uint32) []byte {
		return rawframe.Append(nil, rawframe.Settings, rawframe.FlagAck, 0, rawframe.SettingsPayload([][2]uint32{{3, 1}}))
	}},
	{"settings-on-stream", []uint32{ecProtocol}, func(h *peer.H, open, next uint32) []byte {
		return rawframe.Append(nil, rawframe.Settings, 0, orOne(open), nil)
	}},
	{"enable-push-2", []uint32{ecProtocol}, func(h *peer.H, open, next uint32) []byte {
		return rawframe.Append(nil, rawframe.Settings, 0, 0, rawframe.SettingsPayload([][2]uint32{{2, 2}}))
	}},
	{"max-frame-size-small", []uint32{ecProtocol}, func(h *peer.H, open, next uint32) []byte {
		return rawframe.Append(nil, rawframe.Settings, 0, 0, rawframe.SettingsPayload([][2]uint32{{5, 1000}}))
	}},
	{"initial-window-too-big", []uint32{ecFlow}, func(h *peer.H, open, next uint32) []byte {
		return rawframe.Append(nil, rawframe.Settings, 0, 0, rawframe.SettingsPayload([][2]uint32{{4, 1 << 31}}))
	}},
	{"window-update-0-connection", []uint32{ecProtocol}, func(h *peer.H, open, next uint32) []byte {
		return rawframe.Append(nil, rawframe.WindowUpdate, 0, 0, rawframe.U32(0))
	}},
	{"window-update-connection-overflow", []uint32{ecFlow}, func(h *peer.H, open, next uint32) []byte {
		return rawframe.Append(nil, rawframe.WindowUpdate, 0, 0, rawframe.U32(1<<31-1))
	}},
	{"data-on-stream-0", []uint32{ecProtocol}, func(h *peer.H, open, next uint32) []byte {
		return rawframe.Append(nil, rawframe.Data, 0, 0, []byte("x"))
	}},
	{"headers-on-stream-0", []uint32{ecProtocol}, func(h *peer.H, open, next uint32) []byte {
		return rawframe.Append(nil, rawframe.Headers, rawframe.FlagEndHeaders|rawframe.FlagEndStream, 0, []byte{0x82, 0x87, 0x84})
	}},
	{"stray-continuation", []uint32{ecProtocol}, func(h *peer.H, open, next uint32) []byte {
		return rawframe.Append(nil, rawframe.Continuation, rawframe.FlagEndHeaders, orOne(open), []byte{0x82})
	}},
	{"frame-inside-header-block", []uint32{ecProtocol}, func(h *peer.H, open, next uint32) []byte {
		b := rawframe.Append(nil, rawframe.Headers, rawframe.FlagEndStream, next, []byte{0x82, 0x87})
		return rawframe.Append(b, rawframe.Ping, 0, 0, make([]byte, 8))
	}},
	{"even-stream-id", []uint32{ecProtocol}, func(h *peer.H, open, next uint32) []byte {
		return rawframe.Append(nil, rawframe.Headers, rawframe.FlagEndHeaders|rawframe.FlagEndStream, 2, []byte{0x82, 0x87, 0x84})
	}},
	{"lower-stream-id", []uint32{ecProtocol, ecStreamClosed}, func(h *peer.H, open, next uint32) []byte {
		b := rawframe.Append(nil, rawframe.Headers, rawframe.FlagEndHeaders|rawframe.FlagEndStream, next+4, []byte{0x82, 0x87, 0x84})
		return rawframe.Append(b, rawframe.Headers, rawframe.FlagEndHeaders|rawframe.FlagEndStream, next+2, []byte{0x82, 0x87, 0x84})
	}},
	{"push-promise", []uint32{ecProtocol}, func(h *peer.H, open, next uint32) []byte {
		return rawframe.Append(nil, rawframe.PushPromise, rawframe.FlagEndHeaders, orOne(open), append(rawframe.U32(2), 0x82))
	}},
	{"padding-too-long", []uint32{ecProtocol}, func(h *peer.H, open, next uint32) []byte {
		return rawframe.Append(nil, rawframe.Data, rawframe.FlagPadded, orOne(open), []byte{5, 1, 2})
	}},
	{"hpack-index-out-of-table", []uint32{ecCompression}, func(h *peer.H, open, next uint32) []byte {
		return rawframe.Append(nil, rawframe.Headers, rawframe.FlagEndHeaders|rawframe.FlagEndStream, next, []byte{0x82, 0x87, 0x84, 0xff, 0x80, 0x01})
	}},
	{"hpack-bad-huffman", []uint32{ecCompression}, func(h *peer.H, open, next uint32) []byte {
		return rawframe.Append(nil, rawframe.Headers, rawframe.FlagEndHeaders|rawframe.FlagEndStream, next, []byte{0x82, 0x87, 0x84, 0x00, 0x01, 'x', 0x84, 0xff, 0xff, 0xff, 0xff})
	}},
	{"hpack-size-update-over-limit", []uint32{ecCompression}, func(h *peer.H, open, next uint32) []byte {
		return rawframe.Append(nil, rawframe.Headers, rawframe.FlagEndHeaders|rawframe.FlagEndStream, next, []byte{0x3f, 0xe2, 0x7f, 0x82, 0x87, 0x84})
	}},
	{"hpack-garbage-on-reset-stream", []uint32{ecCompression}, func(h *peer.H, open, next uint32) []byte {
		// a request the server resets (upper-case field name), then trailers on the same
		// stream, in flight behind the reset, whose block does not decode
		b := rawframe.Append(nil, rawframe.Headers, rawframe.FlagEndHeaders, next, []byte{0x83, 0x87, 0x84, 0x00, 0x03, 'X', '-', 'U', 0x01, 'v'})
		return rawframe.Append(b, rawframe.Headers, rawframe.FlagEndHeaders|rawframe.FlagEndStream, next, []byte{0xfe})
	}},
	{"hpack-garbage-in-continuation-of-reset-stream", []uint32{ecCompression}, func(h *peer.H, open, next uint32) []byte {
		b := rawframe.Append(nil, rawframe.Headers, rawframe.FlagEndHeaders, next, []byte{0x83, 0x87, 0x84, 0x00, 0x0a, 'c', 'o', 'n', 'n', 'e', 'c', 't', 'i', 'o', 'n', 0x01, 'v'})
		b = rawframe.Append(b, rawframe.Headers, rawframe.FlagEndStream, next, []byte{0x82})
		return rawframe.Append(b, rawframe.Continuation, rawframe.FlagEndHeaders, next, []byte{0xff, 0xff, 0xff, 0xff, 0x7f})
	}},
	{"hpack-truncated-block", []uint32{ecCompression}, func(h *peer.H, open, next uint32) []byte {
		return rawframe.Append(nil, rawframe.Headers, rawframe.FlagEndHeaders|rawframe.FlagEndStream, next, []byte{0x82, 0x87, 0x84, 0x00, 0x05, 'a'})
	}},
}

func orOne(id uint32) uint32 {
	if id == 0 {
		return 1
	}
	return id
}

func c10OffenceByName(n string) *c10Offence {
	for i := range c10Offences {
		if c10Offences[i].name == n {
			return &c10Offences[i]
		}
	}
	return nil
}

func c10Run(c c10Case) Outcome {
	off := c10OffenceByName(c.Off)
	if off == nil && c.Off != "idle-timeout" {
		return Outcome{Inconcl: "unknown offence"}
	}
	resps := map[string]peer.Resp{}
	for i := 0; i < c.InFlight; i++ {
		resps[fmt.Sprintf("f%d", i)] = peer.Resp{Status: 200, BodyLen: 5, Gate: true}
	}
	cfg := peer.Config{MaxConcurrentStreams: 100, MaxRequestBodySize: 1 << 20, Responses: resps, DefaultResp: peer.Resp{Status: 200, BodyLen: 3}, QuiesceTimeout: 8 * time.Second}
	if c.Off == "idle-timeout" {
		cfg.IdleTimeout = 40 * time.Millisecond
	}
	if c.Off == "lower-stream-id" {
		// with every slot held this implementation refuses the two streams (the limit is checked before the id),
		// which is a stream-level answer and not the connection error this offence is about: not combined
		c.AtLimit = false
	}
	if c.AtLimit && c.InFlight > 0 {
		cfg.MaxConcurrentStreams = c.InFlight
	}
	h := peer.Start(cfg)
	defer h.Close()
	h.SendSettings(nil)
	idOf := map[string]uint32{}
	id := uint32(1)
	send := func(tag string) {
		idOf[tag] = id
		sendReq(h, id, simpleReq(tag))
		id += 2
	}
	for i := 0; i < c.Before; i++ {
		send(fmt.Sprintf("b%d", i))
		if ok, d := h.Quiesce(); !ok {
			return Outcome{Inconcl: "no quiescence before the offence: " + d}
		}
	}
	var open uint32
	if c.Backpressure {
		c.Burst = true
		h.C.HoldReads(true)
		h.S.SetWriteLimit(2048)
		gap := func() int64 {
			ev := &h.Stats.Ev
			return ev[http2.VerifEvQueued].Load() - ev[http2.VerifEvWritten].Load() - ev[http2.VerifEvDropped].Load()
		}
		full := false
		fillBy := time.Now().Add(3 * time.Second)
		for n := 0; n < 800 && !full && time.Now().Before(fillBy); n++ {
			_ = h.Write(rawframe.Append(nil, rawframe.Ping, 0, 0, make([]byte, 8)))
			// until the stream loop has dealt with it: either the acknowledgement is queued or the queue is full
			for spin := 0; spin < 20000 && time.Now().Before(fillBy); spin++ {
				ev := &h.Stats.Ev
				if gap() >= 129 {
					full = true
					break
				}
				if h.S.Unread() == 0 && h.S.ReaderParked() && ev[http2.VerifEvForwarded].Load() == ev[http2.VerifEvTaken].Load() && h.Stats.Busy.Load() == 0 {
					break
				}
				time.Sleep(20 * time.Microsecond)
			}
		}
		if !full {
			return Outcome{Inconcl: fmt.Sprintf("could not fill the server's write queue (gap %d, %s)", gap(), h.StatsString())}
		}
		for i := 0; i < c.Filler; i++ {
			_ = h.Write(rawframe.Append(nil, rawframe.WindowUpdate, 0, 0, rawframe.U32(1)))
		}
	}
	lowID := uint32(0)
	if c.AtLimit && c.LowRefused && c.InFlight > 0 && !c.Backpressure {
		lowID = id
		id += 2
	}
	for i := 0; i < c.InFlight; i++ {
		open = id
		send(fmt.Sprintf("f%d", i))
		if !c.Burst {
			if ok, d := h.Quiesce(); !ok {
				return Outcome{Inconcl: "no quiescence before the offence: " + d}
			}
		}
	}
	if lowID != 0 {
		// every slot is held: this one is refused, whatever its id. The server must have dealt with it before
		// anything releases a handler (a freed slot turns the same frame into a connection error: lower stream id)
		idOf["low"] = lowID
		sendReq(h, lowID, simpleReq("low"))
		if ok, d := h.Quiesce(); !ok {
			return Outcome{Inconcl: "no quiescence before the offence: " + d}
		}
	}
	beforeOff := id // requests at or above this id are written after the offence
	if off != nil {
		_ = h.Write(off.build(h, open, id))
		if c.Off == "lower-stream-id" || c.Off == "frame-inside-header-block" || strings.HasPrefix(c.Off, "hpack") {
			id += 6
		}
	} else {
		// idle-timeout shutdown racing new requests: wait for about the timeout, then send
		time.Sleep(time.Duration(30+c.TrailN%20) * time.Millisecond)
	}
	for i := 0; i < c.After; i++ {
		send(fmt.Sprintf("a%d", i))
	}
	if c.Backpressure {
		// give the loops the time to run into the full queue, then read again
		time.Sleep(time.Duration(1+c.TrailN%5) * time.Millisecond)
		h.S.SetWriteLimit(0)
		h.C.HoldReads(false)
	}
	switch c.Trail {
	case "valid":
		for i := 0; i < c.TrailN%20; i++ {
			_ = h.Write(rawframe.Append(nil, rawframe.Ping, 0, 0, make([]byte, 8)))
		}
	case "flood":
		for i := 0; i < 300+c.TrailN; i++ {
			_ = h.Write(rawframe.Append(nil, rawframe.WindowUpdate, 0, 0, rawframe.U32(1)))
		}
	case "noread":
		h.C.HoldReads(true)
		h.S.SetWriteLimit(2048)
		for i := 0; i < 200; i++ {
			_ = h.Write(rawframe.Append(nil, rawframe.Ping, 0, 0, make([]byte, 8)))
		}
	case "close":
		_ = h.C.Close()
	}
	if c.Trail != "noread" && c.Trail != "close" {
		// let the server react, then release the promised streams
		deadline := time.Now().Add(3 * time.Second)
		for time.Now().Before(deadline) {
			evs := h.EventsCopy()
			if len(peer.GoAways(evs)) > 0 || peer.HasEOF(evs) {
				break
			}
			time.Sleep(200 * time.Microsecond)
		}
	}
	h.ReleaseAll()
	// ---- the connection handler must return
	returned := h.WaitServeDone(6 * time.Second)
	var stuckGs []string
	if !returned {
		stuckGs = h.ConnGoroutines() // before the peer reads again: the evidence is about the stalled connection
	}
	if c.Trail == "noread" {
		h.C.HoldReads(false)
	}
	if !returned {
		st := h.Stats
		gs := stuckGs
		evidence := ""
		for _, g := range gs {
			if strings.Contains(g, "serverConn).readLoop") && strings.Contains(g, "chan send") && st.Ev[http2.VerifEvStreamLoopExit].Load() > 0 {
				evidence = "read loop parked for ever on the hand-off to the stream loop, which has exited:\n" + firstLines(g, 12)
			}
		}
		if evidence == "" && c.Trail == "noread" {
			for _, g := range gs {
				if strings.Contains(g, "serverConn).writeGoAway") && strings.Contains(g, "serverConn).write(") && strings.Contains(firstLines(g, 1), "[select") {
					evidence = "the loop that found the connection error is parked queueing the GOAWAY behind a full write queue; the peer (this harness) has stopped reading and will not read again, so nothing ever ends the connection:\n" + firstLines(g, 12)
				}
			}
		}
		if evidence == "" && c.Trail == "noread" && st.Ev[http2.VerifEvStreamLoopExit].Load() > 0 && st.Ev[http2.VerifEvWriteLoopExit].Load() == 0 {
			for _, g := range gs {
				if strings.Contains(g, "memconn.(*Conn).Write") && strings.Contains(g, "writeLoop") {
					evidence = "the stream loop has exited, the write loop is inside a Write to a peer that will never read again (the harness controls that), and nothing bounds it:\n" + firstLines(g, 14)
				}
			}
		}
		if evidence == "" && (c.Trail == "silent" || c.Trail == "valid" || c.Trail == "flood") {
			// the peer (this harness) has nothing more to send and keeps reading: if every loop of
			// the connection is idle now, nothing will ever make ServeConn return
			if ok, _ := h.Quiesce(); ok {
				select {
				case <-h.ServeDone:
				default:
					gas := peer.GoAways(h.EventsCopy())
					evidence = fmt.Sprintf("every loop of the connection is idle (hook counters quiescent), the peer is silent but still connected, GOAWAYs sent so far: %d; nothing is left that could end the connection", len(gas))
				}
			}
		}
		if evidence != "" {
			return fail("serveconn-wedged", "after offence %q (trailing behaviour %q) and with every handler released, ServeConn has not returned after 6s; %s", c.Off, c.Trail, evidence)
		}
		if c.Off == "idle-timeout" && len(peer.GoAways(h.EventsCopy())) == 0 {
			return Outcome{Inconcl: "idle timer has not fired"}
		}
		all := ""
		for _, g := range gs {
			all += firstLines(g, 8) + "\n"
		}
		return Outcome{Inconcl: "ServeConn did not return within 6s but no goroutine is provably stuck:\n" + all}
	}
	time.Sleep(2 * time.Millisecond)
	evs := h.EventsCopy()
	seen := h.SeenCopy()
	gas := peer.GoAways(evs)
	maxDispatched := uint32(0)
	for _, sn := range seen {
		if idOf[sn.Tag] > maxDispatched {
			maxDispatched = idOf[sn.Tag]
		}
	}
	cls := []string{"off:" + c.Off, "trail:" + c.Trail}
	if c.Backpressure {
		cls = append(cls, "backpressure")
	}
	if lowID != 0 {
		cls = append(cls, "low-id-refused-at-limit")
	}
	for _, g := range gas {
		if g.Last < maxDispatched {
			return fail("goaway-lies", "offence %q: GOAWAY(last-stream-id=%d, %s) but the request on stream %d was handed to a handler (a client would replay it)", c.Off, g.Last, peer.CodeName(g.Code), maxDispatched)
		}
		if off != nil {
			ok := false
			for _, a := range off.codes {
				if g.Code == a {
					ok = true
				}
			}
			if !ok {
				return fail("goaway-code:"+peer.CodeName(g.Code), "offence %q answered with GOAWAY(%s, %q); RFC 7540 allows %v (or closing)", c.Off, peer.CodeName(g.Code), g.Debug, off.codes)
			}
		} else if g.Code != 0 {
			return fail("goaway-code:"+peer.CodeName(g.Code), "idle shutdown announced with GOAWAY(%s)", peer.CodeName(g.Code))
		}
	}
	if off != nil {
		for _, sn := range seen {
			if idOf[sn.Tag] >= beforeOff {
				return fail("dispatch-after-error", "offence %q: request %s on stream %d, written after the offending frame, was handed to a handler", c.Off, sn.Tag, idOf[sn.Tag])
			}
		}
		if len(gas) == 0 && !peer.HasEOF(evs) && c.Trail != "close" && c.Trail != "noread" {
			return fail("no-reaction", "offence %q: neither GOAWAY nor a closed connection", c.Off)
		}
	}
	// nothing of the connection may be left behind
	for try := 0; ; try++ {
		left := ""
		for _, g := range h.ConnGoroutines() {
			left = firstLines(g, 10)
		}
		if left == "" {
			break
		}
		if try > 400 {
			return fail("goroutine-left", "ServeConn returned but a goroutine of the connection is still there:\n%s", left)
		}
		time.Sleep(5 * time.Millisecond)
	}
	return Outcome{NonTrivial: c.Before >= 1 && (c.After >= 1 || c.Trail == "valid" || c.Trail == "flood" || c.Trail == "noread"), Classes: cls}
}

func firstLines(s string, n int) string {
	ls := strings.Split(s, "\n")
	if len(ls) > n {
		ls = ls[:n]
	}
	return strings.Join(ls, "\n")
}

func c10Gen(t *rapid.T) c10Case {
	names := []string{"idle-timeout"}
	for _, o := range c10Offences {
		names = append(names, o.name)
	}
	return c10Case{
		Before:       rapid.IntRange(0, 4).Draw(t, "before"),
		InFlight:     rapid.IntRange(0, 3).Draw(t, "inflight"),
		After:        rapid.IntRange(0, 3).Draw(t, "after"),
		Off:          rapid.SampledFrom(names).Draw(t, "off"),
		Trail:        rapid.SampledFrom([]string{"silent", "valid", "flood", "noread", "close"}).Draw(t, "trail"),
		TrailN:       rapid.IntRange(0, 300).Draw(t, "trailn"),
		Burst:        rapid.Bool().Draw(t, "burst"),
		AtLimit:      rapid.IntRange(0, 3).Draw(t, "atlimit") == 0,
		LowRefused:   rapid.Bool().Draw(t, "lowrefused"),
		Backpressure: rapid.IntRange(0, 3).Draw(t, "backpressure") == 0,
		Filler:       rapid.SampledFrom([]int{0, 10, 60, 110}).Draw(t, "filler"),
	}
}

func TestC10(t *testing.T) {
	s := newSuite(t, "C10",
		"well-formed traffic (0..4 requests answered, 0..3 with parked handlers, 0..3 written right behind) around one connection-scoped offence from a catalogue of 26 (frame over MAX_FRAME_SIZE, PING/RST_STREAM/WINDOW_UPDATE/SETTINGS of impossible size, SETTINGS ACK with payload / on a stream / invalid values, WINDOW_UPDATE 0 or overflow on the connection, DATA/HEADERS on stream 0, stray CONTINUATION, frame inside a header block, even or lower stream id, PUSH_PROMISE, padding >= payload, four kinds of undecodable header block, and undecodable trailers / CONTINUATION in flight for a stream the server has just reset) or an idle-timeout shutdown racing new requests; then the peer stays silent / keeps sending valid frames / floods 300+ frames / stops reading (bounded queue) / closes. Oracle: every GOAWAY's last-stream-id >= the highest stream whose request reached a handler at any time; its code is one RFC 7540 allows for the offence (bare close accepted); nothing written after the offending frame is dispatched; with all handlers released ServeConn returns (6 s bound; expiry is a violation only with a goroutine dump showing a permanently blocked library goroutine, otherwise inconclusive) and no goroutine of the connection stays behind. Non-trivial = >=1 request answered before the offence and traffic after it; distinct by case hash.")
	defer s.finish()
	runLane(s, Lane[c10Case]{Name: "offences", Journal: true, Quick: 1200, Thor: 40000, Gen: c10Gen, Run: c10Run})
}
