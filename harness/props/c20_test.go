package props

import (
	"fmt"
	"math/big"
	"strconv"
	"strings"
	"testing"

	"pgregory.net/rapid"

	"verif/harness/peer"
	"verif/harness/rawframe"
	"verif/harness/refhpack"
	"verif/harness/speer"
)

// C20 — malformed HTTP messages are rejected; well-formed ones are all accepted.

var connSpecificNames = []string{"connection", "keep-alive", "proxy-connection", "transfer-encoding", "upgrade"}

// wellFormedRequest is the RFC 7540 8.1.2 predicate (DESIGN appendix B).
func wellFormedRequest(list []refhpack.Field, bodyLen int, trailers []refhpack.Field) (bool, string) {
	seenRegular := false
	pseudo := map[string]int{}
	var path string
	cl := []string{}
	for _, f := range list {
		if f.Name != strings.ToLower(f.Name) {
			return false, "upper-case field name " + f.Name
		}
		if strings.HasPrefix(f.Name, ":") {
			if seenRegular {
				return false, "pseudo-header after a regular field"
			}
			switch f.Name {
			case ":method", ":scheme", ":path", ":authority":
			default:
				return false, "pseudo-header " + f.Name + " is not a request pseudo-header"
			}
			pseudo[f.Name]++
			if pseudo[f.Name] > 1 {
				return false, "duplicate " + f.Name
			}
			if f.Name == ":path" {
				path = f.Value
			}
			continue
		}
		seenRegular = true
		if connSpecific[f.Name] {
			return false, "connection-specific field " + f.Name
		}
		if f.Name == "te" && f.Value != "trailers" {
			return false, "te other than trailers"
		}
		if f.Name == "content-length" {
			cl = append(cl, f.Value)
		}
	}
	if pseudo[":method"] != 1 || pseudo[":scheme"] != 1 || pseudo[":path"] != 1 {
		return false, "missing mandatory pseudo-header"
	}
	if path == "" {
		return false, "empty :path"
	}
	for _, v := range cl {
		if v == "" {
			return false, "empty content-length"
		}
		for _, c := range v {
			if c < '0' || c > '9' {
				return false, "content-length is not a number"
			}
		}
		n, _ := new(big.Int).SetString(v, 10)
		if n.Cmp(big.NewInt(int64(bodyLen))) != 0 {
			return false, "content-length differs from the DATA octets"
		}
	}
	for _, f := range trailers {
		if f.Name != strings.ToLower(f.Name) {
			return false, "upper-case trailer name"
		}
		if strings.HasPrefix(f.Name, ":") {
			return false, "pseudo-header in trailers"
		}
		if connSpecific[f.Name] {
			return false, "connection-specific trailer"
		}
		if f.Name == "te" && f.Value != "trailers" {
			return false, "te other than trailers in trailers"
		}
	}
	return true, ""
}

type c20Case struct {
	Before   int              `json:"before"`
	After    int              `json:"after"`
	List     []peer.FieldSpec `json:"list"`
	BodyLen  int              `json:"blen"`
	Trailers []peer.FieldSpec `json:"trailers,omitempty"`
	Splits   []int            `json:"splits,omitempty"`
	Mut      string           `json:"mut,omitempty"`
	Chunks   []int            `json:"chunks,omitempty"`  // DATA chunk sizes (cycled)
	PadData  []int            `json:"paddata,omitempty"` // per DATA frame: 0 = unpadded, n = pad length n-1 (cycled)
}

func plainList(fs []peer.FieldSpec) []refhpack.Field {
	var out []refhpack.Field
	for _, f := range fs {
		out = append(out, refhpack.Field{Name: f.F.Name, Value: f.F.Value})
	}
	return out
}

func simpleReq(tag string) peer.Req {
	return peer.Req{Tag: tag, Method: "GET", Path: "/" + tag, Scheme: "https", Auth: "example.com",
		Fields: []peer.FieldSpec{{F: refhpack.Field{Name: "x-tag", Value: tag}, R: refhpack.Rep{Kind: 1, HuffVal: true}}, {F: refhpack.Field{Name: "accept", Value: "*/*"}, R: refhpack.Rep{Kind: 0, Alt: 1, NameIdx: true}}}}
}

// sendSimple sends a complete simple request and returns its stream id.
func sendReq(h *peer.H, id uint32, r peer.Req) {
	h.OpenStream(id)
	block := h.EncodeBlock(r.SizeUpd, r.HeaderList())
	hasBody := r.BodyLen > 0 || len(r.Trailers) > 0
	for _, f := range peer.SplitBlock(id, block, r.Splits, !hasBody, r.PadHdr, false, 0, false, 0) {
		_ = h.Write(f)
	}
	if !hasBody {
		return
	}
	for _, f := range peer.DataFrames(id, peer.BodyFor(r.Tag, r.BodyLen), r.Chunks, r.PadData, len(r.Trailers) == 0) {
		_ = h.Write(f)
	}
	if len(r.Trailers) > 0 {
		tb := h.EncodeBlock(nil, r.Trailers)
		for _, f := range peer.SplitBlock(id, tb, r.TrSplits, true, 0, false, 0, false, 0) {
			_ = h.Write(f)
		}
	}
}

func c20Run(c c20Case) Outcome {
	h := peer.Start(peer.Config{MaxConcurrentStreams: 100, MaxRequestBodySize: 1 << 20, DefaultResp: peer.Resp{Status: 200, BodyLen: 3}})
	defer h.Close()
	h.SendSettings(nil)
	id := uint32(1)
	var neighbours []peer.Req
	var nids []uint32
	quiesce := func(where string) *Outcome {
		if ok, d := h.Quiesce(); !ok {
			return &Outcome{Inconcl: "no quiescence " + where + ": " + d}
		}
		return nil
	}
	for i := 0; i < c.Before; i++ {
		r := simpleReq(fmt.Sprintf("b%d", i))
		sendReq(h, id, r)
		neighbours, nids = append(neighbours, r), append(nids, id)
		id += 2
		if o := quiesce("before"); o != nil {
			return *o
		}
	}
	target := id
	id += 2
	list := plainList(c.List)
	trailers := plainList(c.Trailers)
	wf, why := wellFormedRequest(list, c.BodyLen, trailers)
	h.OpenStream(target)
	block := h.EncodeBlock(nil, c.List)
	hasBody := c.BodyLen > 0 || len(c.Trailers) > 0
	for _, f := range peer.SplitBlock(target, block, c.Splits, !hasBody, 0, false, 0, false, 0) {
		_ = h.Write(f)
	}
	if o := quiesce("after the target's header block"); o != nil {
		return *o
	}
	answered := func() bool {
		g := peer.Assemble(h.EventsCopy())[target]
		return g != nil && (g.Rst || g.HdrBlocks > 0)
	}
	if hasBody && !answered() {
		// a polite client: the body only goes out while the stream is open
		// (frames in flight after the server's RST_STREAM are C09's subject)
		body := make([]byte, c.BodyLen)
		for i := range body {
			body[i] = byte('a' + i%26)
		}
		for _, f := range peer.DataFrames(target, body, c.Chunks, c.PadData, len(c.Trailers) == 0) {
			_ = h.Write(f)
		}
		if len(c.Trailers) > 0 {
			if o := quiesce("after the target's body"); o != nil {
				return *o
			}
			if !answered() {
				tb := h.EncodeBlock(nil, c.Trailers)
				for _, f := range peer.SplitBlock(target, tb, nil, true, 0, false, 0, false, 0) {
					_ = h.Write(f)
				}
			}
		}
		if o := quiesce("after the target"); o != nil {
			return *o
		}
	}
	for i := 0; i < c.After; i++ {
		r := simpleReq(fmt.Sprintf("a%d", i))
		sendReq(h, id, r)
		neighbours, nids = append(neighbours, r), append(nids, id)
		id += 2
		if o := quiesce("after"); o != nil {
			return *o
		}
	}
	evs := h.EventsCopy()
	seen := h.SeenCopy()
	got := peer.Assemble(evs)
	desc := fmt.Sprintf("list %s body=%d trailers=%s", fmtFields(list), c.BodyLen, fmtFields(trailers))
	targetRuns := len(seen) - 0
	for _, n := range neighbours {
		for _, s := range seen {
			if s.Tag == n.Tag {
				targetRuns--
			}
		}
	}
	g := got[target]
	cls := []string{"mut:" + c.Mut}
	if wf {
		cls = append(cls, "wellformed")
		if targetRuns != 1 {
			return fail("wellformed-not-dispatched", "well-formed request (%s) on stream %d: handler ran %d times; stream got %s; goaways=%v", desc, target, targetRuns, g, peer.GoAways(evs))
		}
		if g == nil || !g.Complete || g.Status != "200" {
			return fail("wellformed-no-response", "well-formed request (%s) on stream %d: response %s", desc, target, g)
		}
		// the handler must have seen the regular fields
		var mine *peer.Seen
		for i := range seen {
			isN := false
			for _, n := range neighbours {
				if seen[i].Tag == n.Tag {
					isN = true
				}
			}
			if !isN {
				mine = &seen[i]
			}
		}
		var sent []refhpack.Field
		for _, f := range append(append([]refhpack.Field{}, list...), trailers...) {
			if !strings.HasPrefix(f.Name, ":") && f.Name != "cookie" && f.Name != "host" {
				sent = append(sent, f)
			}
		}
		var sg []refhpack.Field
		for _, f := range mine.Fields {
			if f.Name != "host" && f.Name != "cookie" {
				sg = append(sg, f)
			}
		}
		if d := msDiff(multiset(sent, nil), multiset(sg, nil)); d != "" {
			return fail("wellformed-fields", "well-formed request (%s): handler saw different fields: %s", desc, d)
		}
		if len(mine.Body) != c.BodyLen {
			return fail("wellformed-body", "well-formed request (%s): handler saw %d body bytes", desc, len(mine.Body))
		}
	} else {
		cls = append(cls, "malformed")
		if targetRuns != 0 {
			return fail("malformed-dispatched", "malformed request (%s: %s) on stream %d was handed to the handler (%d runs)", why, desc, target, targetRuns)
		}
		ok := false
		if g != nil && g.Rst && g.RstCode == 1 {
			ok = true
		}
		if g != nil && !g.Rst && g.Complete && len(g.Status) == 3 && g.Status[0] == '4' {
			ok = true
		}
		if !ok {
			if ga := peer.GoAways(evs); len(ga) > 0 {
				return fail("malformed-goaway:"+peer.CodeName(ga[0].Code), "malformed request (%s: %s) on stream %d: the whole connection was torn down with GOAWAY(%s, %q)", why, desc, target, peer.CodeName(ga[0].Code), ga[0].Debug)
			}
			return fail("malformed-not-refused", "malformed request (%s: %s) on stream %d: want RST_STREAM(PROTOCOL_ERROR) or a 4xx, got %s", why, desc, target, g)
		}
	}
	if ga := peer.GoAways(evs); len(ga) > 0 {
		return fail("goaway:"+peer.CodeName(ga[0].Code), "connection torn down with GOAWAY(%s, %q) around the request (%s; well-formed=%v %s)", peer.CodeName(ga[0].Code), ga[0].Debug, desc, wf, why)
	}
	for i, n := range neighbours {
		if msg := checkSeen(n, seen); msg != "" {
			return fail("neighbour", "neighbour of the request (%s; well-formed=%v %s): %s", desc, wf, why, msg)
		}
		if msg := checkGot(n.Tag, h.Cfg.DefaultResp, got[nids[i]]); msg != "" {
			return fail("neighbour", "neighbour of the request (%s; well-formed=%v %s): %s", desc, wf, why, msg)
		}
	}
	if peer.HasEOF(evs) {
		return fail("eof", "server closed the connection around the request (%s)", desc)
	}
	repeated := false
	names := map[string]int{}
	for _, f := range list {
		names[f.Name]++
		if names[f.Name] > 1 && !strings.HasPrefix(f.Name, ":") {
			repeated = true
		}
	}
	nt := !wf && c.Mut != "" && !strings.Contains(c.Mut, "+") || wf && (repeated || len(trailers) > 0)
	return Outcome{NonTrivial: nt, Classes: cls}
}

func c20Gen(t *rapid.T) c20Case {
	c := c20Case{Before: rapid.IntRange(0, 2).Draw(t, "before"), After: rapid.IntRange(0, 2).Draw(t, "after")}
	method := rapid.SampledFrom([]string{"GET", "POST", "PUT", "HEAD", "DELETE"}).Draw(t, "method")
	path := "/x" + genToken(t, "p", 0, 12)
	ps := []peer.FieldSpec{
		genFieldSpec(t, ":method", method),
		genFieldSpec(t, ":scheme", "https"),
		genFieldSpec(t, ":path", path),
	}
	if rapid.Bool().Draw(t, "auth") {
		ps = append(ps, genFieldSpec(t, ":authority", "example.com"))
	}
	ps = shuffle(t, ps)
	reg := genRegularFields(t, 6, 40)
	if rapid.Bool().Draw(t, "body") {
		c.BodyLen = rapid.IntRange(0, 300).Draw(t, "blen")
	}
	hasCL := rapid.IntRange(0, 2).Draw(t, "cl") == 0
	if hasCL {
		reg = append(reg, genFieldSpec(t, "content-length", strconv.Itoa(c.BodyLen)))
	}
	if c.BodyLen > 0 && rapid.IntRange(0, 3).Draw(t, "tr") == 0 {
		c.Trailers = []peer.FieldSpec{genFieldSpec(t, "x-trailer", genValueN(t, "tv", 5))}
	}
	for _, f := range ps {
		f.F.Sensitive = false
	}
	// mutations
	var muts []string
	nm := rapid.SampledFrom([]int{0, 0, 0, 1, 1, 1, 1, 2}).Draw(t, "nmut")
	for i := 0; i < nm; i++ {
		k := rapid.IntRange(0, 16).Draw(t, "mut")
		switch k {
		case 0: // drop a mandatory pseudo-header
			want := rapid.SampledFrom([]string{":method", ":scheme", ":path"}).Draw(t, "drop")
			var np []peer.FieldSpec
			for _, f := range ps {
				if f.F.Name != want {
					np = append(np, f)
				}
			}
			ps = np
			muts = append(muts, "drop"+want)
		case 1: // duplicate a pseudo-header
			if len(ps) > 0 {
				d := ps[rapid.IntRange(0, len(ps)-1).Draw(t, "dup")]
				ps = append(ps, d)
				muts = append(muts, "dup"+d.F.Name)
			}
		case 2:
			for i := range ps {
				if ps[i].F.Name == ":path" {
					ps[i].F.Value = ""
				}
			}
			muts = append(muts, "emptypath")
		case 3: // pseudo-header after a regular field
			if len(ps) > 0 {
				last := ps[len(ps)-1]
				ps = ps[:len(ps)-1]
				reg = append([]peer.FieldSpec{genFieldSpec(t, "x-first", "1"), last}, reg...)
				muts = append(muts, "pseudo-after-regular")
			}
		case 4:
			ps = append(ps, genFieldSpec(t, ":status", "200"))
			muts = append(muts, ":status")
		case 5:
			ps = append(ps, genFieldSpec(t, rapid.SampledFrom([]string{":foo", ":protocol", ":"}).Draw(t, "unk"), "x"))
			muts = append(muts, "unknown-pseudo")
		case 6:
			reg = append(reg, genFieldSpec(t, rapid.SampledFrom([]string{"X-Upper", "Accept", "cOOKIE", "x-A", "Content-Length"}).Draw(t, "up"), "1"))
			muts = append(muts, "uppercase")
		case 7:
			reg = append(reg, genFieldSpec(t, rapid.SampledFrom(connSpecificNames).Draw(t, "cs"), rapid.SampledFrom([]string{"close", "keep-alive", "chunked", "h2c", "timeout=5"}).Draw(t, "csv")))
			muts = append(muts, "connection-specific")
		case 8:
			reg = append(reg, genFieldSpec(t, "te", rapid.SampledFrom([]string{"gzip", "trailers, deflate", "deflate", "TRAILERS", ""}).Draw(t, "te")))
			muts = append(muts, "te")
		case 9, 10, 11, 12: // content-length variants
			var nr []peer.FieldSpec
			for _, f := range reg {
				if f.F.Name != "content-length" {
					nr = append(nr, f)
				}
			}
			reg = nr
			kind := rapid.SampledFrom([]string{"smaller", "larger", "abc", "signed", "empty", "overflow", "zeros", "hex", "space", "trailer-override", "trailer-override"}).Draw(t, "clk")
			if kind == "trailer-override" {
				// the declared length is wrong and a content-length in the trailers states the right one: the
				// request is malformed all the same (its content-length header field differs from the DATA octets)
				if c.BodyLen == 0 {
					kind = "larger"
				} else {
					c.Trailers = append(c.Trailers, genFieldSpec(t, "content-length", strconv.Itoa(c.BodyLen)))
					muts = append(muts, "cl-in-trailer")
					kind = rapid.SampledFrom([]string{"smaller", "larger"}).Draw(t, "clk2")
				}
			}
			var v string
			switch kind {
			case "smaller":
				v = strconv.Itoa(c.BodyLen - 1 - rapid.IntRange(0, 3).Draw(t, "d"))
				if c.BodyLen == 0 {
					v = "0"
					kind = "equal"
				}
			case "larger":
				v = strconv.Itoa(c.BodyLen + 1 + rapid.IntRange(0, 300).Draw(t, "d"))
			case "abc":
				v = rapid.SampledFrom([]string{"abc", "1a", "a1", "1.0", "1e3"}).Draw(t, "abc")
			case "signed":
				v = rapid.SampledFrom([]string{"+", "-"}).Draw(t, "sign") + strconv.Itoa(c.BodyLen)
			case "empty":
				v = ""
			case "overflow":
				n := new(big.Int).Lsh(big.NewInt(1), 64)
				n.Add(n, big.NewInt(int64(c.BodyLen)))
				v = n.String()
			case "zeros":
				v = "00" + strconv.Itoa(c.BodyLen)
			case "hex":
				v = "0x" + strconv.FormatInt(int64(c.BodyLen), 16)
			case "space":
				v = strconv.Itoa(c.BodyLen) + " "
			}
			if strings.HasPrefix(v, "-") && len(v) > 1 && v[1] == '-' {
				v = "-1"
			}
			reg = append(reg, genFieldSpec(t, "content-length", v))
			muts = append(muts, "cl-"+kind)
		case 13:
			if c.BodyLen > 0 {
				bad := genFieldSpec(t, rapid.SampledFrom([]string{":path", ":status", ":authority", ":method", ":scheme", ":foo", "X-Up", "connection", "te"}).Draw(t, "btr"), rapid.SampledFrom([]string{"gzip", "evil.example", "/other"}).Draw(t, "btrv"))
				// after the regular trailer fields, before them, or alone
				switch rapid.IntRange(0, 2).Draw(t, "btrpos") {
				case 0:
					c.Trailers = append(c.Trailers, bad)
				case 1:
					c.Trailers = append([]peer.FieldSpec{bad}, c.Trailers...)
				default:
					c.Trailers = []peer.FieldSpec{bad}
				}
				muts = append(muts, "bad-trailer")
			}
		case 14: // repeated regular field (still well-formed)
			if len(reg) > 0 {
				d := reg[rapid.IntRange(0, len(reg)-1).Draw(t, "rdup")]
				if d.F.Name != "content-length" && d.F.Name != "user-agent" && d.F.Name != "content-type" {
					reg = append(reg, d)
					muts = append(muts, "repeat-regular")
				}
			}
		case 15:
			reg = append(reg, genFieldSpec(t, "te", "trailers"))
			muts = append(muts, "te-trailers")
		default:
			reg = append(reg, genFieldSpec(t, "cookie", "a=1"), genFieldSpec(t, "cookie", "b=2"))
			muts = append(muts, "cookies")
		}
	}
	// a content-length in the trailers is only generated together with a wrong declared length (where the request
	// is malformed whatever the trailers say); if a later mutation made the declared length right again, the
	// trailer field goes: how a well-formed request's own content-length and one in its trailers are shown to the
	// handler is fasthttp's business, not part of the comparison
	declaredRight := true
	for _, f := range reg {
		if f.F.Name == "content-length" {
			n, ok := new(big.Int).SetString(f.F.Value, 10)
			if !ok || strings.ContainsAny(f.F.Value, "+- ") || n.Cmp(big.NewInt(int64(c.BodyLen))) != 0 {
				declaredRight = false
			}
		}
	}
	if declaredRight {
		var nt []peer.FieldSpec
		for _, f := range c.Trailers {
			if f.F.Name != "content-length" {
				nt = append(nt, f)
			}
		}
		c.Trailers = nt
	}
	c.Mut = strings.Join(muts, "+")
	c.List = append(ps, reg...)
	for i := range c.List {
		c.List[i].F.Sensitive = false
		if c.List[i].R.Kind == 3 {
			c.List[i].R.Kind = 2
		}
		if c.List[i].R.Alt == 3 {
			c.List[i].R.Alt = 2
		}
	}
	if rapid.IntRange(0, 3).Draw(t, "split") == 0 {
		c.Splits = []int{rapid.IntRange(0, 500).Draw(t, "splitat")}
	}
	if c.BodyLen > 0 && rapid.IntRange(0, 2).Draw(t, "framing") == 0 {
		// the body in several DATA frames, some empty, some padded: padding and
		// frame count are not part of the body a content-length speaks about
		c.Chunks = rapid.SliceOfN(rapid.SampledFrom([]int{0, 1, 7, 100}), 1, 3).Draw(t, "chunks")
		c.PadData = rapid.SliceOfN(rapid.SampledFrom([]int{0, 1, 2, 9, 256}), 1, 3).Draw(t, "paddata")
	}
	return c
}

func shuffle(t *rapid.T, fs []peer.FieldSpec) []peer.FieldSpec {
	idx := make([]int, len(fs))
	for i := range idx {
		idx[i] = i
	}
	p := rapid.Permutation(idx).Draw(t, "perm")
	out := make([]peer.FieldSpec, len(fs))
	for i, j := range p {
		out[i] = fs[j]
	}
	return out
}

func TestC20(t *testing.T) {
	s := newSuite(t, "C20",
		"server: a header list built from a well-formed base (pseudo-headers in any order, 0..6 regular fields incl. cookies/te: trailers, optional content-length, body 0..300 in one DATA frame or several with empty and padded frames, optional trailers) with 0..2 mutations from a catalogue (mandatory pseudo-header dropped/duplicated/empty :path, pseudo after regular, :status or unknown pseudo, upper-case name, connection-specific field, te other than trailers, content-length smaller/larger/non-numeric/signed/empty/2^64+n/leading zeros/hex/trailing space, malformed trailers (pseudo-header incl. ones the request did not use, upper-case, connection-specific, te; first, last or alone in the trailer block), repeated regular fields), placed among 0..2 plain requests before and after on the same connection, header block optionally split; oracle = RFC 7540 8.1.2 predicate (DESIGN appendix B): handler runs iff well-formed, otherwise RST_STREAM(PROTOCOL_ERROR) or a 4xx on that stream only, neighbours served intact, no GOAWAY. Non-trivial = list with exactly one rule broken, or a well-formed list with a repeated field or trailers; distinct by case hash.",
		"CONNECT, '*' paths, characters outside token/field-value, empty names and duplicated content-length are not generated (RFC 7540 does not fix their treatment)", "the body of a request already refused at header time is not sent (frames in flight after the server's RST are C09's subject)")
	defer s.finish()
	runLane(s, Lane[c20Case]{Name: "server", Journal: true, Quick: 4000, Thor: 600000, Gen: c20Gen, Run: c20Run})
	runLane(s, Lane[c20CCase]{Name: "client", Journal: true, Quick: 500, Thor: 60000, Gen: c20CGen, Run: c20CRun})
}

// ---- client half -----------------------------------------------------------

// wellFormedResponse: exactly one :status of three digits before any regular
// field, no other pseudo-header, lower-case names, no connection-specific
// field, numeric content-length.
func wellFormedResponse(list []refhpack.Field) (bool, string) {
	status := 0
	regular := false
	for _, f := range list {
		if hasUpperASCII(f.Name) {
			return false, "upper-case field name"
		}
		if strings.HasPrefix(f.Name, ":") {
			if regular {
				return false, "pseudo-header after a regular field"
			}
			if f.Name != ":status" {
				return false, "pseudo-header other than :status"
			}
			status++
			if status > 1 {
				return false, "duplicate :status"
			}
			if len(f.Value) != 3 {
				return false, ":status is not three digits"
			}
			for _, c := range f.Value {
				if c < '0' || c > '9' {
					return false, ":status is not a number"
				}
			}
			if f.Value[0] == '0' {
				return false, ":status below 100"
			}
			continue
		}
		regular = true
		if connSpecific[f.Name] {
			return false, "connection-specific field"
		}
		if f.Name == "content-length" {
			if f.Value == "" {
				return false, "empty content-length"
			}
			for _, c := range f.Value {
				if c < '0' || c > '9' {
					return false, "content-length is not a number"
				}
			}
		}
	}
	if status != 1 {
		return false, "no :status"
	}
	return true, ""
}

type c20CCase struct {
	Before int              `json:"before"`
	After  int              `json:"after"`
	List   []peer.FieldSpec `json:"list"`
	Body   int              `json:"body"`
	Split  int              `json:"split,omitempty"`
	Mut    string           `json:"mut,omitempty"`
	// LateUpdate k > 0: a dynamic table size update (to the size in force, 4096) is put between field k-1 and field k
	// of the response block. RFC 7541 4.2 only allows it at the beginning of a block: the block is not a valid
	// header block whatever its fields say, and the response must not be delivered.
	LateUpdate int `json:"lateupdate,omitempty"`
}

func c20CRun(c c20CCase) Outcome {
	env, err := speer.NewEnv(clientOpts())
	if err != nil {
		return Outcome{Inconcl: "cannot set the client up: " + err.Error()}
	}
	defer env.Close()
	sc := env.Conn(0)
	if sc == nil {
		return Outcome{Inconcl: "no connection"}
	}
	answerOK := func(id uint32, tag string) {
		list := []peer.FieldSpec{{F: refhpack.Field{Name: ":status", Value: "200"}, R: refhpack.Rep{Kind: 0}},
			{F: refhpack.Field{Name: "x-tag", Value: tag}, R: refhpack.Rep{Kind: 1, HuffVal: true}},
			{F: refhpack.Field{Name: "x-shared", Value: "shared-value-in-the-table"}, R: refhpack.Rep{Kind: 0, Alt: 1}}}
		for _, f := range peer.SplitBlock(id, sc.EncodeBlock(nil, list), nil, false, 0, false, 0, false, 0) {
			_ = sc.Write(f)
		}
		_ = sc.Write(rawframe.Append(nil, rawframe.Data, rawframe.FlagEndStream, id, peer.BodyFor(tag, 20)))
		sc.StreamDone(id)
	}
	streamOf := func(tag string) uint32 {
		for _, e := range sc.EventsCopy() {
			if e.Kind == "headers" {
				for _, f := range e.Fields {
					if f.Name == ":path" && peer.TagOfURI(f.Value) == tag {
						return e.Stream
					}
				}
			}
		}
		return 0
	}
	do := func(tag string) (*speer.Call, uint32, *Outcome) {
		call := env.Do(speer.ReqSpec{Tag: tag, Method: "GET", Path: "/" + tag})
		if ok, d := env.Quiesce(); !ok {
			return nil, 0, &Outcome{Inconcl: "no quiescence after sending " + tag + ": " + d}
		}
		id := streamOf(tag)
		if id == 0 {
			return call, 0, &Outcome{Inconcl: "request " + tag + " did not reach the server"}
		}
		return call, id, nil
	}
	neighbour := func(tag string) *Outcome {
		call, id, o := do(tag)
		if o != nil {
			if id == 0 && call != nil && call.Finished() && call.Err != nil {
				oo := fail("neighbour", "neighbour request %s of the response (%s) failed before it was sent: %v", tag, c.Mut, call.Err)
				return &oo
			}
			return o
		}
		answerOK(id, tag)
		if ok, d := env.Quiesce(); !ok {
			return &Outcome{Inconcl: "no quiescence after answering " + tag + ": " + d}
		}
		if !call.Finished() {
			oo := fail("neighbour", "neighbour request %s of the response (%s) never resolved", tag, c.Mut)
			return &oo
		}
		if call.Err != nil || call.Status != 200 || string(call.Body) != string(peer.BodyFor(tag, 20)) {
			oo := fail("neighbour", "neighbour request %s of the response (%s) got err=%v status=%d body=%q fields=%v", tag, c.Mut, call.Err, call.Status, headStr(call.Body), call.Fields)
			return &oo
		}
		found := false
		for _, f := range call.Fields {
			if f.Name == "x-tag" && f.Value == tag {
				found = true
			}
		}
		if !found {
			oo := fail("neighbour", "neighbour request %s of the response (%s) got fields %v: not its own", tag, c.Mut, call.Fields)
			return &oo
		}
		return nil
	}
	for i := 0; i < c.Before; i++ {
		if o := neighbour(fmt.Sprintf("b%d", i)); o != nil {
			return *o
		}
	}
	call, id, o := do("target")
	if o != nil {
		return *o
	}
	list := plainList(c.List)
	wf, why := wellFormedResponse(list)
	var splits []int
	if c.Split > 0 {
		splits = []int{c.Split}
	}
	block := []byte(nil)
	if k := c.LateUpdate; k > 0 && k < len(c.List) {
		block = sc.EncodeBlock(nil, c.List[:k])
		block = append(block, sc.EncodeBlock([]int{4096}, c.List[k:])...)
		wf, why = false, "dynamic table size update after a field (RFC 7541 4.2)"
	} else {
		block = sc.EncodeBlock(nil, c.List)
	}
	for _, f := range peer.SplitBlock(id, block, splits, c.Body == 0, 0, false, 0, false, 0) {
		_ = sc.Write(f)
	}
	if c.Body > 0 {
		_ = sc.Write(rawframe.Append(nil, rawframe.Data, rawframe.FlagEndStream, id, peer.BodyFor("target", c.Body)))
	}
	sc.StreamDone(id)
	if ok, d := env.Quiesce(); !ok {
		return Outcome{Inconcl: "no quiescence after the target response: " + d}
	}
	desc := fmt.Sprintf("response %s body=%d", fmtFields(list), c.Body)
	if !call.Finished() {
		return fail("unresolved", "%s (well-formed=%v %s): the request never resolved", desc, wf, why)
	}
	if wf {
		if call.Err != nil {
			return fail("wellformed-rejected", "well-formed %s: the caller got error %q", desc, call.Err)
		}
		if strconv.Itoa(call.Status) != statusOf(list) || len(call.Body) != c.Body {
			return fail("wellformed-wrong", "well-formed %s: the caller got status %d and %d body bytes", desc, call.Status, len(call.Body))
		}
	} else if call.Err == nil {
		return fail("malformed-delivered", "malformed %s (%s) was delivered to the caller (status %d)", desc, why, call.Status)
	}
	for i := 0; i < c.After; i++ {
		if o := neighbour(fmt.Sprintf("a%d", i)); o != nil {
			return *o
		}
	}
	cls := []string{"cmut:" + c.Mut}
	if wf {
		cls = append(cls, "wellformed")
	} else {
		cls = append(cls, "malformed")
	}
	return Outcome{NonTrivial: !wf && !strings.Contains(c.Mut, "+") || wf && len(list) > 2, Classes: cls}
}

func statusOf(list []refhpack.Field) string {
	for _, f := range list {
		if f.Name == ":status" {
			return f.Value
		}
	}
	return ""
}

func c20CGen(t *rapid.T) c20CCase {
	c := c20CCase{Before: rapid.IntRange(0, 2).Draw(t, "before"), After: rapid.IntRange(0, 2).Draw(t, "after")}
	status := strconv.Itoa(rapid.OneOf(rapid.SampledFrom([]int{200, 404, 500, 100 + 99, 999}), rapid.IntRange(200, 599)).Draw(t, "status"))
	if status == "204" || status == "304" {
		status = "200"
	}
	list := []peer.FieldSpec{genFieldSpec(t, ":status", status)}
	n := rapid.IntRange(0, 5).Draw(t, "nf")
	for i := 0; i < n; i++ {
		name := rapid.SampledFrom([]string{"cache-control", "etag", "vary", "x-a", "x-b", "x-shared", "location"}).Draw(t, "name")
		list = append(list, genFieldSpec(t, name, genValueN(t, "v", genLen(t, "vl", 40))))
	}
	if rapid.Bool().Draw(t, "body") {
		c.Body = rapid.IntRange(1, 200).Draw(t, "blen")
	}
	if rapid.Bool().Draw(t, "cl") {
		list = append(list, genFieldSpec(t, "content-length", strconv.Itoa(c.Body)))
	}
	var muts []string
	late := rapid.IntRange(0, 9).Draw(t, "late") == 0
	nm := rapid.SampledFrom([]int{0, 0, 1, 1, 1, 2}).Draw(t, "nmut")
	for i := 0; i < nm; i++ {
		switch rapid.IntRange(0, 9).Draw(t, "mut") {
		case 0:
			list = list[1:]
			muts = append(muts, "no-status")
			if len(list) == 0 {
				list = append(list, genFieldSpec(t, "x-a", "1"))
			}
		case 1:
			list = append([]peer.FieldSpec{list[0]}, list...)
			muts = append(muts, "dup-status")
		case 2:
			if len(list) > 1 {
				list = append(list[1:], list[0])
				muts = append(muts, "status-not-first")
			}
		case 3:
			list[0].F.Value = rapid.SampledFrom([]string{"abc", "20", "2000", "099", "1e2", "", "2 0"}).Draw(t, "bs")
			muts = append(muts, "bad-status-value")
		case 4:
			list = append([]peer.FieldSpec{genFieldSpec(t, rapid.SampledFrom([]string{":path", ":method", ":foo"}).Draw(t, "ps"), "x")}, list...)
			muts = append(muts, "request-pseudo")
		case 5:
			list = append(list, genFieldSpec(t, rapid.SampledFrom([]string{"X-Upper", "Etag", "Content-Length"}).Draw(t, "up"), "1"))
			muts = append(muts, "uppercase")
		case 6:
			list = append(list, genFieldSpec(t, rapid.SampledFrom(connSpecificNames).Draw(t, "cs"), "close"))
			muts = append(muts, "connection-specific")
		case 7:
			var nl []peer.FieldSpec
			for _, f := range list {
				if f.F.Name != "content-length" {
					nl = append(nl, f)
				}
			}
			list = append(nl, genFieldSpec(t, "content-length", rapid.SampledFrom([]string{"abc", "-1", "", "1.5", "0x10"}).Draw(t, "bcl")))
			muts = append(muts, "bad-content-length")
		case 8:
			if len(list) > 1 {
				list = append(list, list[len(list)-1])
				muts = append(muts, "repeat-regular")
			}
		default:
			list = append(list, genFieldSpec(t, "set-cookie", "a=b"), genFieldSpec(t, "set-cookie", "c=d"))
			muts = append(muts, "set-cookies")
		}
	}
	for i := range list {
		list[i].F.Sensitive = false
		if list[i].R.Kind == 3 {
			list[i].R.Kind = 1
		}
	}
	c.List = list
	if late && len(list) > 1 {
		c.LateUpdate = rapid.IntRange(1, len(list)-1).Draw(t, "lateat")
		muts = append(muts, "late-size-update")
	}
	c.Mut = strings.Join(muts, "+")
	if rapid.IntRange(0, 3).Draw(t, "split") == 0 {
		c.Split = rapid.IntRange(1, 200).Draw(t, "splitat")
	}
	return c
}
