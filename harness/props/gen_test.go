package props

import (
	"strings"

	"pgregory.net/rapid"

	"verif/harness/refhpack"
)

// ---- shared generators (every random choice is a rapid draw) ---------------

var staticNames = func() []string {
	seen := map[string]bool{}
	var out []string
	for _, f := range refhpack.StaticTable {
		if !seen[f.Name] {
			seen[f.Name] = true
			out = append(out, f.Name)
		}
	}
	return out
}()

// regular (non-pseudo) static names that fasthttp does not special-case
var plainStaticNames = []string{"accept", "accept-charset", "accept-encoding", "accept-language", "age", "allow",
	"authorization", "cache-control", "content-encoding", "content-language", "etag", "expires", "from",
	"if-match", "if-none-match", "last-modified", "link", "location", "max-forwards", "range", "referer",
	"refresh", "retry-after", "vary", "via", "www-authenticate"}

var customNames = []string{"x-a", "x-b", "x-trace-id", "x-0", "x-long-custom-header-name-for-tests", "zz", "q", "00000000", "x-tag"}

const tokenChars = "abcdefghijklmnopqrstuvwxyz0123456789-_.!#$%&'*+^`|~"
const valueChars = "abcdefghijklmnopqrstuvwxyzABCDEFGHIJKLMNOPQRSTUVWXYZ0123456789 -_.,;:=/+*()[]{}<>?@!#$%&'\"\\^`|~"

func genToken(t *rapid.T, label string, lo, hi int) string {
	n := rapid.IntRange(lo, hi).Draw(t, label+"-len")
	var sb strings.Builder
	for i := 0; i < n; i++ {
		sb.WriteByte(tokenChars[rapid.IntRange(0, len(tokenChars)-1).Draw(t, label)])
	}
	return sb.String()
}

// boundary-heavy length generator
func genLen(t *rapid.T, label string, max int) int {
	n := rapid.OneOf(
		rapid.IntRange(0, 20),
		rapid.SampledFrom([]int{0, 1, 4, 5, 14, 15, 16, 30, 31, 32, 62, 63, 64, 65, 126, 127, 128, 129, 254, 255, 256, 300}),
		rapid.IntRange(0, max),
	).Draw(t, label)
	if n > max {
		n = max
	}
	return n
}

// genValue draws a field value of n visible-ASCII bytes (no leading/trailing space).
func genValueN(t *rapid.T, label string, n int) string {
	if n == 0 {
		return ""
	}
	mode := rapid.IntRange(0, 4).Draw(t, label+"-mode")
	b := make([]byte, n)
	switch mode {
	case 0: // runs of one char ("000...") — Huffman forms ending in 0x00 etc.
		c := rapid.SampledFrom([]byte("0a1 /z~")).Draw(t, label+"-c")
		if c == ' ' {
			c = '0'
		}
		for i := range b {
			b[i] = c
		}
	default:
		for i := range b {
			b[i] = valueChars[rapid.IntRange(0, len(valueChars)-1).Draw(t, label)]
		}
	}
	if b[0] == ' ' {
		b[0] = 'x'
	}
	if b[n-1] == ' ' {
		b[n-1] = 'y'
	}
	return string(b)
}

func genRep(t *rapid.T, label string) refhpack.Rep {
	return refhpack.Rep{
		Kind:     rapid.IntRange(0, 3).Draw(t, label+"-kind"),
		Alt:      rapid.IntRange(1, 3).Draw(t, label+"-alt"),
		NameIdx:  rapid.Bool().Draw(t, label+"-ni"),
		HuffName: rapid.Bool().Draw(t, label+"-hn"),
		HuffVal:  rapid.Bool().Draw(t, label+"-hv"),
		Pick:     rapid.IntRange(0, 7).Draw(t, label+"-pick"),
		PadInt:   rapid.SampledFrom([]int{0, 0, 0, 0, 1, 2}).Draw(t, label+"-pad"),
	}
}
