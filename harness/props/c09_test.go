package props

import (
	"fmt"
	"strconv"
	"testing"

	"pgregory.net/rapid"

	"verif/harness/peer"
	"verif/harness/rawframe"
	"verif/harness/refhpack"
)

// C09 — a stream-level error never disturbs other streams or the compression context.

type c09Item struct {
	Off     string `json:"off,omitempty"` // "" = well-formed request; else the offence (see c09Offences)
	NFields int    `json:"nf"`            // shared-vocabulary fields carried (inserted into / referenced from the dynamic table)
	VocOff  int    `json:"voc"`           // which part of the vocabulary
	BodyLen int    `json:"blen,omitempty"`
	Pos     int    `json:"pos,omitempty"`    // position of the malformed field among the regular fields
	Split   int    `json:"split,omitempty"`  // >0: header block cut at this offset (mod len) into HEADERS+CONTINUATION
	Gate    bool   `json:"gate,omitempty"`   // good request whose handler is held until the end
	Flight  int    `json:"flight,omitempty"` // frames written right behind the offending one, before the peer could have read the server's reaction: 0 none, 1 DATA, 2 DATA+END_STREAM, 3 WINDOW_UPDATE, 4 trailers
	RespLen int    `json:"resplen,omitempty"`
}

type c09Case struct {
	MaxStreams int       `json:"maxstreams"`
	Items      []c09Item `json:"items"`
}

var c09Offences = []string{"malformed", "cl-small", "cl-large", "toobig", "toobig-cl", "refused", "rst-headers", "rst-body", "rst-running", "rst-blocked", "panic", "wu-overflow", "wu-zero"}

// shared vocabulary: the same fields come back in later requests, so a later
// block indexes what an earlier (possibly offending) block inserted.
func c09Voc(i int) refhpack.Field {
	return refhpack.Field{Name: fmt.Sprintf("x-voc-%d", i%7), Value: fmt.Sprintf("value-%d-%s", i, "abcdefghijklmnopqrstuvwxyz"[:i%20+1])}
}

const c09MaxBody = 2000

var dbgHook func(*peer.H)

func c09Run(c c09Case) Outcome {
	resps := map[string]peer.Resp{}
	for i, it := range c.Items {
		tag := fmt.Sprintf("t%d", i)
		r := peer.Resp{Status: 200, BodyLen: it.RespLen, Gate: it.Gate && it.Off == ""}
		switch it.Off {
		case "panic":
			r.Panic = true
		case "rst-running":
			r.Gate = true
		case "rst-blocked":
			r.BodyLen = 100000
		}
		resps[tag] = r
	}
	for i := 0; i < 8; i++ {
		resps[fmt.Sprintf("fill%d", i)] = peer.Resp{Status: 200, Gate: true}
	}
	h := peer.Start(peer.Config{MaxConcurrentStreams: c.MaxStreams, MaxRequestBodySize: c09MaxBody, Responses: resps, DefaultResp: peer.Resp{Status: 200, BodyLen: 2}})
	defer h.Close()
	h.SendSettings(nil)
	id := uint32(1)
	held := 0 // handlers currently parked (occupying a concurrency slot)
	type sent struct {
		req  peer.Req
		id   uint32
		item int
	}
	var goods []sent
	var fills []string
	nFill := 0
	quiesce := func(where string) *Outcome {
		for {
			if ok, d := h.Quiesce(); !ok {
				return &Outcome{Inconcl: "no quiescence " + where + ": " + d}
			}
			if !h.Replenish() {
				return nil
			}
		}
	}
	mkReq := func(tag string, it c09Item) peer.Req {
		r := peer.Req{Tag: tag, Method: "POST", Path: "/" + tag, Scheme: "https", Auth: "example.com"}
		for k := 0; k < it.NFields; k++ {
			f := c09Voc(it.VocOff + k)
			// indexed when the table has it, inserted otherwise
			r.Fields = append(r.Fields, peer.FieldSpec{F: f, R: refhpack.Rep{Kind: 0, Alt: 1, NameIdx: true, HuffVal: k%2 == 0}})
		}
		r.BodyLen = it.BodyLen
		if it.Split > 0 {
			r.Splits = []int{it.Split}
		}
		return r
	}
	nt := false
	var cls []string
	for i, it := range c.Items {
		tag := fmt.Sprintf("t%d", i)
		r := mkReq(tag, it)
		if it.Off == "" {
			if held >= c.MaxStreams-1 && it.Gate {
				it.Gate = false
				rs := resps[tag]
				rs.Gate = false
				h.Cfg.Responses[tag] = rs
			}
			if held >= c.MaxStreams {
				// no slot: release everything held first
				for _, f := range fills {
					h.Release(f)
				}
				for _, g := range goods {
					h.Release(g.req.Tag)
				}
				held = 0
				if o := quiesce("after releasing slots"); o != nil {
					return *o
				}
			}
			r.DeclareCL = i%2 == 0
			sendReq(h, id, r)
			goods = append(goods, sent{r, id, i})
			if it.Gate {
				held++
			}
			id += 2
			if o := quiesce("after a good request"); o != nil {
				return *o
			}
			continue
		}
		cls = append(cls, "off:"+it.Off)
		sid := id
		id += 2
		h.OpenStream(sid)
		body := peer.BodyFor(tag, it.BodyLen)
		flight := func() {
			switch it.Flight {
			case 1:
				_ = h.Write(rawframe.Append(nil, rawframe.Data, 0, sid, []byte("in-flight")))
			case 2:
				_ = h.Write(rawframe.Append(nil, rawframe.Data, rawframe.FlagEndStream, sid, []byte("in-flight")))
			case 3:
				_ = h.Write(rawframe.Append(nil, rawframe.WindowUpdate, 0, sid, rawframe.U32(10)))
			case 4:
				tb := h.EncodeBlock(nil, []peer.FieldSpec{{F: c09Voc(it.VocOff + 50), R: refhpack.Rep{Kind: 1}}})
				_ = h.Write(peer.SplitBlock(sid, tb, nil, true, 0, false, 0, false, 0)[0])
			}
		}
		writeBlock := func(list []peer.FieldSpec, endStream bool) {
			block := h.EncodeBlock(nil, list)
			for _, f := range peer.SplitBlock(sid, block, r.Splits, endStream, 0, false, 0, false, 0) {
				_ = h.Write(f)
			}
		}
		switch it.Off {
		case "malformed":
			list := r.HeaderList()
			bad := peer.FieldSpec{F: refhpack.Field{Name: []string{"X-Upper", "connection", "te", ":status"}[it.Pos%4], Value: "gzip"}, R: refhpack.Rep{Kind: 2}}
			at := 4 + it.Pos%(len(r.Fields)+1)
			list = append(list[:at], append([]peer.FieldSpec{bad}, list[at:]...)...)
			// without in-flight frames the request ends with its header block;
			// with them, the body/trailers are what is in flight
			writeBlock(list, it.Flight == 0)
			flight()
		case "cl-small", "cl-large":
			d := 1
			if it.Off == "cl-small" {
				d = -1
			}
			if it.BodyLen == 0 {
				it.BodyLen = 5
				body = peer.BodyFor(tag, 5)
			}
			list := append(r.HeaderList(), peer.FieldSpec{F: refhpack.Field{Name: "content-length", Value: strconv.Itoa(it.BodyLen + d)}, R: refhpack.Rep{Kind: 2, NameIdx: true}})
			writeBlock(list, false)
			for _, f := range peer.DataFrames(sid, body, []int{700}, nil, true) {
				_ = h.Write(f)
			}
			flight()
		case "toobig":
			writeBlock(r.HeaderList(), false)
			big := peer.BodyFor(tag, c09MaxBody+500)
			for _, f := range peer.DataFrames(sid, big, []int{900}, nil, it.Flight == 0) {
				_ = h.Write(f)
			}
			flight()
		case "toobig-cl":
			list := append(r.HeaderList(), peer.FieldSpec{F: refhpack.Field{Name: "content-length", Value: strconv.Itoa(c09MaxBody + 1)}, R: refhpack.Rep{Kind: 2, NameIdx: true}})
			writeBlock(list, false)
			flight()
		case "refused":
			for held < c.MaxStreams {
				ft := fmt.Sprintf("fill%d", nFill)
				nFill++
				fr := simpleReq(ft)
				sendReq(h, sid, fr) // takes this id; the refused one comes after
				fills = append(fills, ft)
				held++
				sid = id
				id += 2
				h.OpenStream(sid)
				if o := quiesce("after a filler"); o != nil {
					return *o
				}
				if nFill >= 8 {
					break
				}
			}
			writeBlock(r.HeaderList(), it.BodyLen == 0 && it.Flight == 0)
			if it.BodyLen > 0 {
				for _, f := range peer.DataFrames(sid, body, nil, nil, it.Flight == 0) {
					_ = h.Write(f)
				}
			}
			flight()
			nt = nt || it.NFields > 0
		case "rst-headers":
			writeBlock(r.HeaderList(), false)
			_ = h.Write(rawframe.Append(nil, rawframe.RstStream, 0, sid, rawframe.U32(8)))
		case "rst-body":
			writeBlock(r.HeaderList(), false)
			_ = h.Write(rawframe.Append(nil, rawframe.Data, 0, sid, []byte("partial")))
			_ = h.Write(rawframe.Append(nil, rawframe.RstStream, 0, sid, rawframe.U32(8)))
		case "rst-running", "rst-blocked":
			writeBlock(r.HeaderList(), true)
			if o := quiesce("before the peer's RST_STREAM"); o != nil {
				return *o
			}
			_ = h.Write(rawframe.Append(nil, rawframe.RstStream, 0, sid, rawframe.U32(8)))
			if it.Off == "rst-running" {
				if o := quiesce("after the peer's RST_STREAM"); o != nil {
					return *o
				}
				h.Release(tag)
			}
		case "panic":
			writeBlock(r.HeaderList(), true)
		case "wu-overflow":
			writeBlock(r.HeaderList(), false)
			_ = h.Write(rawframe.Append(nil, rawframe.WindowUpdate, 0, sid, rawframe.U32(1<<31-1)))
			flight()
		case "wu-zero":
			writeBlock(r.HeaderList(), false)
			_ = h.Write(rawframe.Append(nil, rawframe.WindowUpdate, 0, sid, rawframe.U32(0)))
			flight()
		}
		if o := quiesce("after the offending stream (" + it.Off + ")"); o != nil {
			return *o
		}
		if ga := peer.GoAways(h.EventsCopy()); len(ga) > 0 {
			return fail("goaway:"+it.Off+":"+peer.CodeName(ga[0].Code), "stream-scoped offence %q (in-flight kind %d) on stream %d: the server tore the whole connection down with GOAWAY(last=%d, %s, %q)", it.Off, it.Flight, sid, ga[0].Last, peer.CodeName(ga[0].Code), ga[0].Debug)
		}
		if it.NFields > 0 {
			nt = true
		}
	}
	for _, f := range fills {
		h.Release(f)
	}
	h.ReleaseAll()
	if o := quiesce("after releasing every handler"); o != nil {
		return *o
	}
	// probe: a final request that references what every earlier block inserted
	probe := mkReq("probe", c09Item{NFields: 6, VocOff: 0})
	sendReq(h, id, probe)
	goods = append(goods, sent{probe, id, -1})
	for round := 0; round < 4; round++ {
		if o := quiesce("after the probe"); o != nil {
			return *o
		}
		got := peer.Assemble(h.EventsCopy())
		need := false
		for _, g := range goods {
			if x := got[g.id]; x == nil || x.EndStream == 0 && !x.Rst {
				need = true
				h.SendWindowUpdate(g.id, 1<<20)
			}
		}
		if !need {
			break
		}
		h.SendWindowUpdate(0, 1<<21)
	}
	if dbgHook != nil {
		dbgHook(h)
	}
	evs := h.EventsCopy()
	if ga := peer.GoAways(evs); len(ga) > 0 {
		return fail("goaway-late:"+peer.CodeName(ga[0].Code), "after stream-scoped offences %v the connection was torn down with GOAWAY(last=%d, %s, %q)", cls, ga[0].Last, peer.CodeName(ga[0].Code), ga[0].Debug)
	}
	seen := h.SeenCopy()
	got := peer.Assemble(evs)
	for _, g := range goods {
		rs := h.Cfg.Responses[g.req.Tag]
		if g.item < 0 {
			rs = h.Cfg.DefaultResp
		}
		if msg := checkSeen(g.req, seen); msg != "" {
			return fail("neighbour-request", "with stream-scoped offences %v on the connection: %s (stream %d)", cls, msg, g.id)
		}
		if msg := checkGot(g.req.Tag, rs, got[g.id]); msg != "" {
			return fail("neighbour-response", "with stream-scoped offences %v on the connection: %s (stream %d)", cls, msg, g.id)
		}
	}
	if peer.HasEOF(evs) {
		return fail("eof", "connection closed after stream-scoped offences %v", cls)
	}
	if v := h.FlowViolation(); v != "" {
		return fail("flow-control", "%s", v)
	}
	return Outcome{NonTrivial: nt && len(cls) > 0, Classes: cls}
}

func c09Gen(t *rapid.T) c09Case {
	c := c09Case{MaxStreams: rapid.IntRange(2, 4).Draw(t, "maxstreams")}
	n := rapid.IntRange(2, 7).Draw(t, "n")
	for i := 0; i < n; i++ {
		it := c09Item{NFields: rapid.IntRange(0, 5).Draw(t, "nf"), VocOff: rapid.IntRange(0, 12).Draw(t, "voc")}
		if rapid.IntRange(0, 2).Draw(t, "isoff") == 0 {
			it.Off = rapid.SampledFrom(c09Offences).Draw(t, "off")
			it.Pos = rapid.IntRange(0, 7).Draw(t, "pos")
			it.Flight = rapid.SampledFrom([]int{0, 0, 1, 2, 3, 4}).Draw(t, "flight")
		} else {
			it.Gate = rapid.IntRange(0, 3).Draw(t, "gate") == 0
			it.RespLen = rapid.SampledFrom([]int{0, 3, 500}).Draw(t, "resplen")
		}
		if rapid.Bool().Draw(t, "body") {
			it.BodyLen = rapid.IntRange(1, 1500).Draw(t, "blen")
		}
		if rapid.IntRange(0, 2).Draw(t, "split") == 0 {
			it.Split = rapid.IntRange(1, 300).Draw(t, "splitat")
		}
		c.Items = append(c.Items, it)
	}
	return c
}

func TestC09(t *testing.T) {
	s := newSuite(t, "C09",
		"2..7 requests on one connection (MaxConcurrentStreams 2..4, MaxRequestBodySize 2000), each either well-formed (some with gated handlers) or one of the stream-scoped offences {malformed field at a generated position, content-length smaller/larger than the body, body over the limit, declared length over the limit, stream over the concurrency limit (refused), peer RST_STREAM after the headers / mid-body / while the handler runs / while the response is window-blocked, handler panic, stream WINDOW_UPDATE overflow / zero}, optionally followed by frames written before the peer could have read the server's reaction (DATA, DATA+END_STREAM, WINDOW_UPDATE, trailers); all blocks draw their fields from a shared vocabulary so later blocks index entries inserted by earlier, possibly offending, blocks; blocks optionally split. Oracle: no GOAWAY/EOF; every well-formed request, before or after, gets the exchange oracle of C01; a final probe request indexing the whole vocabulary is served. Non-trivial = at least one offence whose block carries vocabulary fields; distinct by case hash.")
	defer s.finish()
	runLane(s, Lane[c09Case]{Name: "offences", Journal: true, Quick: 4000, Thor: 2000000, Gen: c09Gen, Run: c09Run})
}
