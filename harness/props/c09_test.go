package props

import (
	"fmt"
	"strconv"
	"testing"

	"pgregory.net/rapid"

	"verif/harness/peer"
	"verif/harness/rawframe"
	"verif/harness/refhpack"
)

// C09 — a stream-level error never disturbs other streams or the compression context.

type c09Item struct {
	Off     string `json:"off,omitempty"` // "" = well-formed request; else the offence (see c09Offences)
	NFields int    `json:"nf"`            // shared-vocabulary fields carried (inserted into / referenced from the dynamic table)
	VocOff  int    `json:"voc"`           // which part of the vocabulary
	BodyLen int    `json:"blen,omitempty"`
	Pos     int    `json:"pos,omitempty"`    // position of the malformed field among the regular fields
	Split   int    `json:"split,omitempty"`  // >0: header block cut at this offset (mod len) into HEADERS+CONTINUATION
	Gate    bool   `json:"gate,omitempty"`   // good request whose handler is held until the end
	Flight  int    `json:"flight,omitempty"` // frames written right behind the offending one, before the peer could have read the server's reaction: 0 none, 1 DATA, 2 DATA+END_STREAM, 3 WINDOW_UPDATE, 4 trailers
	RespLen int    `json:"resplen,omitempty"`
}

type c09Case struct {
	MaxStreams int       `json:"maxstreams"`
	Items      []c09Item `json:"items"`
}

var c09Offences = []string{"malformed", "cl-small", "cl-large", "toobig", "toobig-cl", "refused", "rst-headers", "rst-body", "rst-running", "rst-blocked", "panic", "wu-overflow", "wu-zero"}

// shared vocabulary: the same fields come back in later requests, so a later
// block indexes what an earlier (possibly offending) block inserted.
func c09Voc(i int) refhpack.Field {
	return refhpack.Field{Name: fmt.Sprintf("x-voc-%d", i%7), Value: fmt.Sprintf("value-%d-%s", i, "abcdefghijklmnopqrstuvwxyz"[:i%20+1])}
}

const c09MaxBody = 2000

var dbgHook func(*peer.H)

func c09Run(c c09Case) Outcome {
	resps := map[string]peer.Resp{}
	for i, it := range c.Items {
		tag := fmt.Sprintf("t%d", i)
		r := peer.Resp{Status: 200, BodyLen: it.RespLen, Gate: it.Gate && it.Off == ""}
		switch it.Off {
		case "panic":
			r.Panic = true
		case "rst-running":
			r.Gate = true
		case "rst-blocked":
			r.BodyLen = 100000
		}
		resps[tag] = r
	}
	for i := 0; i < 8; i++ {
		resps[fmt.Sprintf("fill%d", i)] = peer.Resp{Status: 200, Gate: true}
	}
	h := peer.Start(peer.Config{MaxConcurrentStreams: c.MaxStreams, MaxRequestBodySize: c09MaxBody, Responses: resps, DefaultResp: peer.Resp{Status: 200, BodyLen: 2}})
	defer h.Close()
	h.SendSettings(nil)
	id := uint32(1)
	held := 0 // handlers currently parked (occupying a concurrency slot)
	type sent struct {
		req  peer.Req
		id   uint32
		item int
	}
	var goods []sent
	var fills []string
	nFill := 0
	quiesce := func(where string) *Outcome {
		for {
			if ok, d := h.Quiesce(); !ok {
				return &Outcome{Inconcl: "no quiescence " + where + ": " + d}
			}
			if !h.Replenish() {
				return nil
			}
		}
	}
	mkReq := func(tag string, it c09Item) peer.Req {
		r := peer.Req{Tag: tag, Method: "POST", Path: "/" + tag, Scheme: "https", Auth: "example.com"}
		for k := 0; k < it.NFields; k++ {
			f := c09Voc(it.VocOff + k)
			// indexed when the table has it, inserted otherwise
			r.Fields = append(r.Fields, peer.FieldSpec{F: f, R: refhpack.Rep{Kind: 0, Alt: 1, NameIdx: true, HuffVal: k%2 == 0}})
		}
		r.BodyLen = it.BodyLen
		if it.Split > 0 {
			r.Splits = []int{it.Split}
		}
		return r
	}
	nt := false
	var cls []string
	for i, it := range c.Items {
		tag := fmt.Sprintf("t%d", i)
		r := mkReq(tag, it)
		if it.Off == "" {
			if held >= c.MaxStreams-1 && it.Gate {
				it.Gate = false
				rs := resps[tag]
				rs.Gate = false
				h.Cfg.Responses[tag] = rs
			}
			if held >= c.MaxStreams {
				// no slot: release everything held first
				for _, f := range fills {
					h.Release(f)
				}
				for _, g := range goods {
					h.Release(g.req.Tag)
				}
				held = 0
				if o := quiesce("after releasing slots"); o != nil {
					return *o
				}
			}
			r.DeclareCL = i%2 == 0
			sendReq(h, id, r)
			goods = append(goods, sent{r, id, i})
			if it.Gate {
				held++
			}
			id += 2
			if o := quiesce("after a good request"); o != nil {
				return *o
			}
			continue
		}
		cls = append(cls, "off:"+it.Off)
		sid := id
		id += 2
		h.OpenStream(sid)
		body := peer.BodyFor(tag, it.BodyLen)
		flight := func() {
			switch it.Flight {
			case 1:
				_ = h.Write(rawframe.Append(nil, rawframe.Data, 0, sid, []byte("in-flight")))
			case 2:
				_ = h.Write(rawframe.Append(nil, rawframe.Data, rawframe.FlagEndStream, sid, []byte("in-flight")))
			case 3:
				_ = h.Write(rawframe.Append(nil, rawframe.WindowUpdate, 0, sid, rawframe.U32(10)))
			case 4:
				tb := h.EncodeBlock(nil, []peer.FieldSpec{{F: c09Voc(it.VocOff + 50), R: refhpack.Rep{Kind: 1}}})
				_ = h.Write(peer.SplitBlock(sid, tb, nil, true, 0, false, 0, false, 0)[0])
			}
		}
		writeBlock := func(list []peer.FieldSpec, endStream bool) {
			block := h.EncodeBlock(nil, list)
			for _, f := range peer.SplitBlock(sid, block, r.Splits, endStream, 0, false, 0, false, 0) {
				_ = h.Write(f)
			}
		}
		switch it.Off {
		case "malformed":
			list := r.HeaderList()
			bad := peer.FieldSpec{F: refhpack.Field{Name: []string{"X-Upper", "connection", "te", ":status"}[it.Pos%4], Value: "gzip"}, R: refhpack.Rep{Kind: 2}}
			at := 4 + it.Pos%(len(r.Fields)+1)
			list = append(list[:at], append([]peer.FieldSpec{bad}, list[at:]...)...)
			// without in-flight frames the request ends with its header block;
			// with them, the body/trailers are what is in flight
			writeBlock(list, it.Flight == 0)
			flight()
		case "cl-small", "cl-large":
			d := 1
			if it.Off == "cl-small" {
				d = -1
			}
			if it.BodyLen == 0 {
				it.BodyLen = 5
				body = peer.BodyFor(tag, 5)
			}
			list := append(r.HeaderList(), peer.FieldSpec{F: refhpack.Field{Name: "content-length", Value: strconv.Itoa(it.BodyLen + d)}, R: refhpack.Rep{Kind: 2, NameIdx: true}})
			writeBlock(list, false)
			for _, f := range peer.DataFrames(sid, body, []int{700}, nil, true) {
				_ = h.Write(f)
			}
			flight()
		case "toobig":
			writeBlock(r.HeaderList(), false)
			big := peer.BodyFor(tag, c09MaxBody+500)
			for _, f := range peer.DataFrames(sid, big, []int{900}, nil, it.Flight == 0) {
				_ = h.Write(f)
			}
			flight()
		case "toobig-cl":
			list := append(r.HeaderList(), peer.FieldSpec{F: refhpack.Field{Name: "content-length", Value: strconv.Itoa(c09MaxBody + 1)}, R: refhpack.Rep{Kind: 2, NameIdx: true}})
			writeBlock(list, false)
			flight()
		case "refused":
			for held < c.MaxStreams {
				ft := fmt.Sprintf("fill%d", nFill)
				nFill++
				fr := simpleReq(ft)
				sendReq(h, sid, fr) // takes this id; the refused one comes after
				fills = append(fills, ft)
				held++
				sid = id
				id += 2
				h.OpenStream(sid)
				if o := quiesce("after a filler"); o != nil {
					return *o
				}
				if nFill >= 8 {
					break
				}
			}
			writeBlock(r.HeaderList(), it.BodyLen == 0 && it.Flight == 0)
			if it.BodyLen > 0 {
				for _, f := range peer.DataFrames(sid, body, nil, nil, it.Flight == 0) {
					_ = h.Write(f)
				}
			}
			flight()
			nt = nt || it.NFields > 0
		case "rst-headers":
			writeBlock(r.HeaderList(), false)
			_ = h.Write(rawframe.Append(nil, rawframe.RstStream, 0, sid, rawframe.U32(8)))
		case "rst-body":
			writeBlock(r.HeaderList(), false)
			_ = h.Write(rawframe.Append(nil, rawframe.Data, 0, sid, []byte("partial")))
			_ = h.Write(rawframe.Append(nil, rawframe.RstStream, 0, sid, rawframe.U32(8)))
		case "rst-running", "rst-blocked":
			writeBlock(r.HeaderList(), true)
			if o := quiesce("before the peer's RST_STREAM"); o != nil {
				return *o
			}
			_ = h.Write(rawframe.Append(nil, rawframe.RstStream, 0, sid, rawframe.U32(8)))
			if it.Off == "rst-running" {
				if o := quiesce("after the peer's RST_STREAM"); o != nil {
					return *o
				}
				h.Release(tag)
			}
		case "panic":
			writeBlock(r.HeaderList(), true)
		case "wu-overflow":
			writeBlock(r.HeaderList(), false)
			_ = h.Write(rawframe.Append(nil, rawframe.WindowUpdate, 0, sid, rawframe.U32(1<<31-1)))
			flight()
		case "wu-zero":
			writeBlock(r.HeaderList(), false)
			_ = h.Write(rawframe.Append(nil, rawframe.WindowUpdate, 0, sid, rawframe.U32(0)))
			flight()
		}
		if o := quiesce("after the offending stream (" + it.Off + ")"); o != nil {
			return *o
		}
		if ga := peer.GoAways(h.EventsCopy()); len(ga) > 0 {
			return fail("goaway:"+it.Off+":"+peer.CodeName(ga[0].Code), "stream-scoped offence %q (in-flight kind %d) on stream %d: the server tore the whole connection down with GOAWAY(last=%d, %s, %q)", it.Off, it.Flight, sid, ga[0].Last, peer.CodeName(ga[0].Code), ga[0].Debug)
		}
		if it.NFields > 0 {
			nt = true
		}
	}
	for _, f := range fills {
		h.Release(f)
	}
	h.ReleaseAll()
	if o := quiesce("after releasing every handler"); o != nil {
		return *o
	}
	// probe: a final request that references what every earlier block inserted
	probe := mkReq("probe", c09Item{NFields: 6, VocOff: 0})
	sendReq(h, id, probe)
	goods = append(goods, sent{probe, id, -1})
	for round := 0; round < 4; round++ {
		if o := quiesce("after the probe"); o != nil {
			return *o
		}
		got := peer.Assemble(h.EventsCopy())
		need := false
		for _, g := range goods {
			if x := got[g.id]; x == nil || x.EndStream == 0 && !x.Rst {
				need = true
				h.SendWindowUpdate(g.id, 1<<20)
			}
		}
		if !need {
			break
		}
		h.SendWindowUpdate(0, 1<<21)
	}
	if dbgHook != nil {
		dbgHook(h)
	}
	evs := h.EventsCopy()
	if ga := peer.GoAways(evs); len(ga) > 0 {
		return fail("goaway-late:"+peer.CodeName(ga[0].Code), "after stream-scoped offences %v the connection was torn down with GOAWAY(last=%d, %s, %q)", cls, ga[0].Last, peer.CodeName(ga[0].Code), ga[0].Debug)
	}
	seen := h.SeenCopy()
	got := peer.Assemble(evs)
	for _, g := range goods {
		rs := h.Cfg.Responses[g.req.Tag]
		if g.item < 0 {
			rs = h.Cfg.DefaultResp
		}
		if msg := checkSeen(g.req, seen); msg != "" {
			return fail("neighbour-request", "with stream-scoped offences %v on the connection: %s (stream %d)", cls, msg, g.id)
		}
		if msg := checkGot(g.req.Tag, rs, got[g.id]); msg != "" {
			return fail("neighbour-response", "with stream-scoped offences %v on the connection: %s (stream %d)", cls, msg, g.id)
		}
	}
	if peer.HasEOF(evs) {
		return fail("eof", "connection closed after stream-scoped offences %v", cls)
	}
	if v := h.FlowViolation(); v != "" {
		return fail("flow-control", "%s", v)
	}
	return Outcome{NonTrivial: nt && len(cls) > 0, Classes: cls}
}

func c09Gen(t *rapid.T) c09Case {
	c := c09Case{MaxStreams: rapid.IntRange(2, 4).Draw(t, "maxstreams")}
	n := rapid.IntRange(2, 7).Draw(t, "n")
	for i := 0; i < n; i++ {
		it := c09Item{NFields: rapid.IntRange(0, 5).Draw(t, "nf"), VocOff: rapid.IntRange(0, 12).Draw(t, "voc")}
		if rapid.IntRange(0, 2).Draw(t, "isoff") == 0 {
			it.Off = rapid.SampledFrom(c09Offences).Draw(t, "off")
			it.Pos = rapid.IntRange(0, 7).Draw(t, "pos")
			it.Flight = rapid.SampledFrom([]int{0, 0, 1, 2, 3, 4}).Draw(t, "flight")
		} else {
			it.Gate = rapid.IntRange(0, 3).Draw(t, "gate") == 0
			it.RespLen = rapid.SampledFrom([]int{0, 3, 500}).Draw(t, "resplen")
		}
		if rapid.Bool().Draw(t, "body") {
			it.BodyLen = rapid.IntRange(1, 1500).Draw(t, "blen")
		}
		if rapid.IntRange(0, 2).Draw(t, "split") == 0 {
			it.Split = rapid.IntRange(1, 300).Draw(t, "splitat")
		}
		c.Items = append(c.Items, it)
	}
	return c
}

// ---- leak lane: discarded frames still count for flow control ------------------
//
// One offence repeated on stream after stream, each followed by DATA that a
// conforming peer may have in flight (it has not read the server's RST_STREAM
// yet), until more than two connection windows have moved. The sender keeps a
// ledger from the server's SETTINGS and WINDOW_UPDATE frames and never
// exceeds it; if discarded octets are not handed back, the ledger runs dry.

type c09LeakCase struct {
	Off       string `json:"off"`        // malformed | toobig | toobig-cl | refused | cl-over
	Chunk     int    `json:"chunk"`      // data octets per in-flight frame
	Pad       int    `json:"pad"`        // 0 = unpadded, else pad length + 1
	PerStream int    `json:"per_stream"` // flow-controlled octets in flight per offending stream
	GoodEvery int    `json:"good_every"` // a well-formed upload every n-th round (0 = never)
	Windows   int    `json:"windows"`    // tenths of the initial connection window to move in total
}

var c09LeakOffs = []string{"malformed", "toobig", "toobig-cl", "refused", "cl-over"}

func c09LeakRun(c c09LeakCase) Outcome {
	const maxStreams = 3
	resps := map[string]peer.Resp{}
	for i := 0; i < maxStreams; i++ {
		resps[fmt.Sprintf("fill%d", i)] = peer.Resp{Status: 200, Gate: true}
	}
	h := peer.Start(peer.Config{MaxConcurrentStreams: maxStreams, MaxRequestBodySize: c09MaxBody, Responses: resps, DefaultResp: peer.Resp{Status: 200, BodyLen: 2}})
	defer h.Close()
	h.SendSettings(nil)
	quiesce := func(where string) *Outcome {
		for {
			if ok, d := h.Quiesce(); !ok {
				return &Outcome{Inconcl: "no quiescence " + where + ": " + d}
			}
			if !h.Replenish() {
				return nil
			}
		}
	}
	if o := quiesce("after the handshake"); o != nil {
		return *o
	}
	// the sender's ledger
	credits := func() (conn int64, streamInit int64) {
		conn, streamInit = 65535, 65535
		for _, e := range h.EventsCopy() {
			switch {
			case e.Kind == "window" && e.Stream == 0:
				conn += int64(e.Incr)
			case e.Kind == "settings":
				for _, kv := range e.Settings {
					if kv[0] == 4 {
						streamInit = int64(kv[1])
					}
				}
			}
		}
		return
	}
	startConn, streamInit := credits()
	var sent int64
	id := uint32(1)
	var fills []string
	var goods []struct {
		req peer.Req
		id  uint32
	}
	if c.Off == "refused" {
		for i := 0; i < maxStreams; i++ {
			ft := fmt.Sprintf("fill%d", i)
			sendReq(h, id, simpleReq(ft))
			fills = append(fills, ft)
			id += 2
		}
		if o := quiesce("after the fillers"); o != nil {
			return *o
		}
	}
	cost := int64(c.Chunk)
	if c.Pad > 0 {
		cost += int64(c.Pad)
	}
	payload := make([]byte, c.Chunk)
	frame := func(sid uint32, last bool) []byte {
		var fl byte
		if last {
			fl = rawframe.FlagEndStream
		}
		if c.Pad > 0 {
			return rawframe.Append(nil, rawframe.Data, fl|rawframe.FlagPadded, sid, rawframe.Padded(payload, c.Pad-1, 0))
		}
		return rawframe.Append(nil, rawframe.Data, fl, sid, payload)
	}
	target := startConn * int64(c.Windows) / 10
	rounds, offending, frames := 0, 0, 0
	starved := ""
	for sent < target && rounds < 400 && frames < 60000 {
		rounds++
		conn, _ := credits()
		avail := conn - sent
		if avail < c09MaxBody {
			starved = fmt.Sprintf("after %d offending streams (%q, each followed by in-flight DATA frames of %d octets + %d of padding) and %d flow-controlled octets sent within the advertised windows, the server is quiescent, has granted %d octets of connection window in all (initial %d) and leaves the sender %d: a well-formed request with a %d-octet body can no longer be sent", offending, c.Off, c.Chunk, cost-int64(c.Chunk), sent, conn, startConn, avail, c09MaxBody)
			break
		}
		if avail < c09MaxBody+1+cost {
			break // not starved, but not enough for another offending round either
		}
		if c.GoodEvery > 0 && rounds%c.GoodEvery == 0 && c.Off != "refused" {
			r := simpleReq(fmt.Sprintf("good%d", rounds))
			r.Method = "POST"
			r.BodyLen = 1 + rounds*37%1500
			sendReq(h, id, r)
			sent += int64(r.BodyLen)
			goods = append(goods, struct {
				req peer.Req
				id  uint32
			}{r, id})
			id += 2
			if o := quiesce("after a good upload"); o != nil {
				return *o
			}
			continue
		}
		sid := id
		id += 2
		offending++
		h.OpenStream(sid)
		// how much goes in flight on this stream
		budget := avail
		if c.Off == "toobig" {
			budget -= c09MaxBody + 1
		}
		if ps := int64(c.PerStream); ps < budget {
			if ps < cost {
				ps = cost // at least one frame
			}
			budget = ps
		}
		if streamInit < budget {
			budget = streamInit
		}
		if target-sent+cost < budget {
			budget = target - sent + cost
		}
		nFrames := int(budget / cost)
		if nFrames > 20000 {
			nFrames = 20000
		}
		r := simpleReq(fmt.Sprintf("off%d", rounds))
		r.Method = "POST"
		list := r.HeaderList()
		switch c.Off {
		case "malformed":
			list = append(list, peer.FieldSpec{F: refhpack.Field{Name: "connection", Value: "close"}, R: refhpack.Rep{Kind: 2}})
		case "toobig-cl":
			list = append(list, peer.FieldSpec{F: refhpack.Field{Name: "content-length", Value: strconv.Itoa(c09MaxBody + 1)}, R: refhpack.Rep{Kind: 2, NameIdx: true}})
		case "cl-over":
			// the body is one octet longer than declared (or, when it carries no
			// data at all, shorter); a body over the limit fails for that reason first
			total, declared := nFrames*c.Chunk, 1
			if total >= 1 && total <= c09MaxBody {
				declared = total - 1
			}
			list = append(list, peer.FieldSpec{F: refhpack.Field{Name: "content-length", Value: strconv.Itoa(declared)}, R: refhpack.Rep{Kind: 2, NameIdx: true}})
		}
		block := h.EncodeBlock(nil, list)
		for _, f := range peer.SplitBlock(sid, block, nil, false, 0, false, 0, false, 0) {
			_ = h.Write(f)
		}
		if c.Off == "toobig" {
			// the frame that takes the body over the limit; what follows is in flight
			_ = h.Write(rawframe.Append(nil, rawframe.Data, 0, sid, make([]byte, c09MaxBody+1)))
			sent += c09MaxBody + 1
		}
		for n := 0; n < nFrames; n++ {
			// a body that does not match its declared length is only known to be
			// wrong once it ends: its last frame carries END_STREAM
			_ = h.Write(frame(sid, c.Off == "cl-over" && n == nFrames-1))
			frames++
			sent += cost
		}
		if o := quiesce("after offending stream " + c.Off); o != nil {
			return *o
		}
		if ga := peer.GoAways(h.EventsCopy()); len(ga) > 0 {
			return fail("leak-goaway:"+c.Off+":"+peer.CodeName(ga[0].Code), "offence %q on stream %d followed by in-flight DATA within the advertised windows: the server tore the connection down with GOAWAY(last=%d, %s, %q)", c.Off, sid, ga[0].Last, peer.CodeName(ga[0].Code), ga[0].Debug)
		}
	}
	cls := []string{"leak:" + c.Off, fmt.Sprintf("leak-moved-windows=%d", sent/startConn)}
	if c.Pad > 0 {
		cls = append(cls, "leak-padded")
	}
	if starved != "" {
		return fail("conn-window-starved:"+c.Off, "%s", starved)
	}
	for _, f := range fills {
		h.Release(f)
	}
	if o := quiesce("after releasing the fillers"); o != nil {
		return *o
	}
	probe := simpleReq("probe")
	probe.Method = "POST"
	probe.BodyLen = 1000
	sendReq(h, id, probe)
	goods = append(goods, struct {
		req peer.Req
		id  uint32
	}{probe, id})
	if o := quiesce("after the probe"); o != nil {
		return *o
	}
	evs := h.EventsCopy()
	if ga := peer.GoAways(evs); len(ga) > 0 {
		return fail("leak-goaway-late:"+peer.CodeName(ga[0].Code), "after %d offending streams (%q) the connection was torn down with GOAWAY(last=%d, %s, %q)", offending, c.Off, ga[0].Last, peer.CodeName(ga[0].Code), ga[0].Debug)
	}
	seen := h.SeenCopy()
	got := peer.Assemble(evs)
	for _, g := range goods {
		if msg := checkSeen(g.req, seen); msg != "" {
			return fail("leak-neighbour-request", "after %d offending streams (%q): %s (stream %d)", offending, c.Off, msg, g.id)
		}
		if msg := checkGot(g.req.Tag, h.Cfg.DefaultResp, got[g.id]); msg != "" {
			return fail("leak-neighbour-response", "after %d offending streams (%q): %s (stream %d)", offending, c.Off, msg, g.id)
		}
	}
	if peer.HasEOF(evs) {
		return fail("eof", "connection closed after %d offending streams (%q)", offending, c.Off)
	}
	return Outcome{NonTrivial: offending >= 2 && sent > startConn, Classes: cls}
}

func c09LeakGen(t *rapid.T) c09LeakCase {
	c := c09LeakCase{
		Off:       rapid.SampledFrom(c09LeakOffs).Draw(t, "off"),
		Chunk:     rapid.SampledFrom([]int{0, 1, 40, 300, 3000, 16000, 16000}).Draw(t, "chunk"),
		PerStream: rapid.SampledFrom([]int{1, 1, 30000, 400000, 4000000}).Draw(t, "perstream"), // 1 = a single frame
		GoodEvery: rapid.SampledFrom([]int{0, 2, 5}).Draw(t, "goodevery"),
		Windows:   rapid.SampledFrom([]int{12, 22}).Draw(t, "windows"),
	}
	if rapid.IntRange(0, 3).Draw(t, "padded") > 0 {
		c.Pad = rapid.SampledFrom([]int{1, 2, 100, 256}).Draw(t, "pad")
	}
	if c.Chunk == 0 && c.Pad == 0 {
		c.Pad = 256 // frames must cost something
	}
	return c
}

func TestC09(t *testing.T) {
	s := newSuite(t, "C09",
		"2..7 requests on one connection (MaxConcurrentStreams 2..4, MaxRequestBodySize 2000), each either well-formed (some with gated handlers) or one of the stream-scoped offences {malformed field at a generated position, content-length smaller/larger than the body, body over the limit, declared length over the limit, stream over the concurrency limit (refused), peer RST_STREAM after the headers / mid-body / while the handler runs / while the response is window-blocked, handler panic, stream WINDOW_UPDATE overflow / zero}, optionally followed by frames written before the peer could have read the server's reaction (DATA, DATA+END_STREAM, WINDOW_UPDATE, trailers); all blocks draw their fields from a shared vocabulary so later blocks index entries inserted by earlier, possibly offending, blocks; blocks optionally split. Oracle: no GOAWAY/EOF; every well-formed request, before or after, gets the exchange oracle of C01; a final probe request indexing the whole vocabulary is served. Leak lane: one offence (malformed / body over the limit / declared length over the limit / refused / body longer than declared) repeated on stream after stream, each followed by in-flight DATA (0..16000 octets per frame, padding 0..255) sent strictly within the windows the server advertised, until 1.2 or 2.2 initial connection windows have moved (or 60000 frames); oracle: at quiescence the sender's ledger still allows a MaxRequestBodySize upload (else conn-window-starved), no GOAWAY, interleaved uploads and the final probe are served. Non-trivial = at least one offence whose block carries vocabulary fields, or (leak lane) >=2 offending streams and more than one connection window moved; distinct by case hash.")
	defer s.finish()
	runLane(s, Lane[c09Case]{Name: "offences", Journal: true, Quick: 4000, Thor: 2000000, Gen: c09Gen, Run: c09Run})
	runLane(s, Lane[c09LeakCase]{Name: "leak", Journal: true, Quick: 40, Thor: 6000, Gen: c09LeakGen, Run: c09LeakRun})
}
