package props

import (
	"fmt"
	"testing"

	"pgregory.net/rapid"

	"verif/harness/peer"
	"verif/harness/rawframe"
	"verif/harness/refhpack"
)

// C14 — receivers hand flow-control credit back so a conforming sender never starves.

type c14Up struct {
	Kind  string `json:"kind"` // ok, toobig, cl-small, rst-mid, burst-after-error
	Size  int    `json:"size"`
	Chunk int    `json:"chunk"`
	Pad   int    `json:"pad,omitempty"` // >0: every DATA frame padded with pad-1 octets
	Empty bool   `json:"empty,omitempty"`
}

type c14Case struct {
	Ups     []c14Up `json:"ups"`
	Repeat  int     `json:"repeat"`        // the whole list is uploaded this many times on one connection
	MaxBody int     `json:"maxbody"`       // server's MaxRequestBodySize
	Par     int     `json:"par,omitempty"` // uploads interleaved (1..3)
}

// sender side ledger of what the server allows us to send
type c14Ledger struct {
	conn    int64
	init    int64
	stream  map[uint32]int64
	evIdx   int
	bad     string
	credits int64
}

func (l *c14Ledger) absorb(h *peer.H) {
	evs := h.EventsCopy()
	for _, e := range evs[l.evIdx:] {
		switch e.Kind {
		case "settings":
			for _, s := range e.Settings {
				if s[0] == 4 {
					d := int64(s[1]) - l.init
					l.init = int64(s[1])
					for id := range l.stream {
						l.stream[id] += d
					}
				}
			}
		case "window":
			if e.Incr == 0 && l.bad == "" {
				l.bad = fmt.Sprintf("WINDOW_UPDATE with an increment of 0 on stream %d", e.Stream)
			}
			if e.Stream == 0 {
				l.conn += int64(e.Incr)
				l.credits += int64(e.Incr)
				if l.conn > 1<<31-1 && l.bad == "" {
					l.bad = fmt.Sprintf("connection window pushed to %d (> 2^31-1)", l.conn)
				}
			} else if _, ok := l.stream[e.Stream]; ok {
				l.stream[e.Stream] += int64(e.Incr)
				if l.stream[e.Stream] > 1<<31-1 && l.bad == "" {
					l.bad = fmt.Sprintf("window of stream %d pushed to %d (> 2^31-1)", e.Stream, l.stream[e.Stream])
				}
			}
		}
	}
	l.evIdx = len(evs)
}

func c14Run(c c14Case) Outcome {
	h := peer.Start(peer.Config{MaxConcurrentStreams: 100, MaxRequestBodySize: c.MaxBody, DefaultResp: peer.Resp{Status: 200}})
	defer h.Close()
	h.SendSettings(nil)
	if ok, d := h.Quiesce(); !ok {
		return Outcome{Inconcl: "no quiescence after the preface: " + d}
	}
	l := &c14Ledger{conn: 65535, init: 65535, stream: map[uint32]int64{}}
	l.absorb(h)
	startConn := l.conn
	id := uint32(1)
	var sentTotal int64
	errored := 0
	padded := false

	type up struct {
		u      c14Up
		id     uint32
		rest   []byte
		opened bool
		dead   bool // the server reset it (seen at a quiescent point) or we did
		done   bool
		sent   int
	}
	isReset := func(sid uint32) bool {
		for _, e := range h.EventsCopy() {
			if e.Kind == "rst" && e.Stream == sid {
				return true
			}
			if e.Kind == "headers" && e.Stream == sid {
				return true // answered: the server is done with the request
			}
		}
		return false
	}
	// step sends the next frame of an upload if the ledger allows; returns
	// (progressed, starved-description)
	step := func(x *up) (bool, string) {
		if x.done {
			return false, ""
		}
		if !x.opened {
			x.id = id
			id += 2
			tag := fmt.Sprintf("u%d", x.id)
			r := simpleReq(tag)
			r.Method = "POST"
			list := r.HeaderList()
			if x.u.Kind == "cl-small" {
				list = append(list, peer.FieldSpec{F: refhpack.Field{Name: "content-length", Value: fmt.Sprint(x.u.Size + 7)}, R: refhpack.Rep{Kind: 2, NameIdx: true}})
			}
			h.OpenStream(x.id)
			_ = h.Write(peer.SplitBlock(x.id, h.EncodeBlock(nil, list), nil, false, 0, false, 0, false, 0)[0])
			l.stream[x.id] = l.init
			x.rest = peer.BodyFor(tag, x.u.Size)
			x.opened = true
			return true, ""
		}
		if x.dead {
			x.done = true
			return false, ""
		}
		n := x.u.Chunk
		if n > len(x.rest) {
			n = len(x.rest)
		}
		if x.u.Empty && x.sent%3 == 1 {
			n = 0
		}
		last := n == len(x.rest)
		cost := int64(n)
		payload := x.rest[:n]
		var fl byte
		if x.u.Pad > 0 {
			fl |= rawframe.FlagPadded
			payload = rawframe.Padded(payload, x.u.Pad-1, 0)
			cost = int64(len(payload))
			padded = true
		}
		if cost > 0 && (l.conn < cost || l.stream[x.id] < cost) {
			return false, fmt.Sprintf("stream %d needs %d octets of window to send its next DATA frame; stream window %d, connection window %d", x.id, cost, l.stream[x.id], l.conn)
		}
		if x.u.Kind == "rst-mid" && x.sent >= 2 {
			_ = h.Write(rawframe.Append(nil, rawframe.RstStream, 0, x.id, rawframe.U32(8)))
			x.dead, x.done = true, true
			errored++
			return true, ""
		}
		if last {
			fl |= rawframe.FlagEndStream
		}
		_ = h.Write(rawframe.Append(nil, rawframe.Data, fl, x.id, payload))
		l.conn -= cost
		l.stream[x.id] -= cost
		sentTotal += cost
		x.rest = x.rest[n:]
		x.sent++
		if last {
			x.done = true
		}
		return true, ""
	}

	par := c.Par
	if par < 1 {
		par = 1
	}
	// The list is cycled Repeat times; a "long" case (Repeat < 0) goes on until
	// 2.2 connection windows have been sent, which is what it takes for a
	// cumulative credit leak to starve the sender.
	var queue []*up
	cycles := 0
	refill := func() {
		if c.Repeat >= 0 && cycles >= c.Repeat {
			return
		}
		if c.Repeat < 0 && (sentTotal > startConn*22/10 || cycles > 4000) {
			return
		}
		cycles++
		for _, u := range c.Ups {
			queue = append(queue, &up{u: u})
		}
	}
	refill()
	var active []*up
	for len(queue) > 0 || len(active) > 0 {
		for len(active) < par && len(queue) > 0 {
			active = append(active, queue[0])
			queue = queue[1:]
			if len(queue) == 0 {
				refill()
			}
		}
		progressed := false
		starved := ""
		for _, x := range active {
			// "burst-after-error" keeps writing without looking at what came back
			burst := 1
			if x.u.Kind == "burst-after-error" || x.u.Kind == "toobig" {
				burst = 4
			}
			for b := 0; b < burst; b++ {
				p, s := step(x)
				if p {
					progressed = true
				}
				if s != "" {
					starved = s
					break
				}
			}
		}
		var na []*up
		for _, x := range active {
			if !x.done {
				na = append(na, x)
			}
		}
		active = na
		if progressed && starved == "" {
			continue
		}
		// nothing could be sent (or someone is blocked): let the receiver catch up
		if ok, d := h.Quiesce(); !ok {
			return Outcome{Inconcl: "no quiescence: " + d}
		}
		l.absorb(h)
		if l.bad != "" {
			return fail("bad-window-update", "%s", l.bad)
		}
		for _, x := range active {
			if x.opened && !x.dead && isReset(x.id) {
				x.dead = true
				errored++
			}
		}
		if ga := peer.GoAways(h.EventsCopy()); len(ga) > 0 {
			return fail("goaway:"+peer.CodeName(ga[0].Code), "GOAWAY(%s, %q) while a conforming sender was uploading", peer.CodeName(ga[0].Code), ga[0].Debug)
		}
		if !progressed {
			// at quiescence, with every credit absorbed: can anybody move?
			can := false
			why := ""
			for _, x := range active {
				if x.dead || !x.opened {
					can = true
					continue
				}
				n := x.u.Chunk
				if n > len(x.rest) {
					n = len(x.rest)
				}
				cost := int64(n)
				if x.u.Pad > 0 {
					cost += int64(x.u.Pad)
				}
				if l.conn >= cost && l.stream[x.id] >= cost {
					can = true
				} else {
					why = fmt.Sprintf("stream %d (still open at the server) needs %d octets; stream window %d, connection window %d", x.id, cost, l.stream[x.id], l.conn)
				}
			}
			if !can && len(active) > 0 {
				return fail("starved", "sender starved after %d octets (%d streams ended in an error): %s; the server is quiescent and has returned %d octets of connection credit in total (initial connection window %d)", sentTotal, errored, why, l.credits, startConn)
			}
		}
	}
	if ok, d := h.Quiesce(); !ok {
		return Outcome{Inconcl: "no quiescence at the end: " + d}
	}
	l.absorb(h)
	if l.bad != "" {
		return fail("bad-window-update", "%s", l.bad)
	}
	cls := []string{}
	if errored > 0 {
		cls = append(cls, "errored")
	}
	if padded {
		cls = append(cls, "padded")
	}
	if sentTotal > 2*startConn {
		cls = append(cls, "over-2-windows")
	}
	return Outcome{NonTrivial: (sentTotal > 2*startConn && errored > 0) || padded, Classes: cls}
}

func c14Gen(t *rapid.T) c14Case {
	c := c14Case{MaxBody: rapid.SampledFrom([]int{1000, 20000, 1 << 20}).Draw(t, "maxbody"), Par: rapid.IntRange(1, 3).Draw(t, "par")}
	n := rapid.IntRange(1, 5).Draw(t, "n")
	total := 0
	for i := 0; i < n; i++ {
		u := c14Up{Kind: rapid.SampledFrom([]string{"ok", "ok", "toobig", "cl-small", "rst-mid", "burst-after-error"}).Draw(t, "kind")}
		u.Chunk = rapid.SampledFrom([]int{1, 100, 1000, 8000, 16000, 16384 - 256}).Draw(t, "chunk")
		switch u.Kind {
		case "toobig", "burst-after-error":
			u.Size = c.MaxBody + rapid.IntRange(1, 70000).Draw(t, "extra")
			if u.Chunk < 1000 {
				u.Chunk = 8000
			}
		default:
			u.Size = rapid.IntRange(0, c.MaxBody).Draw(t, "size")
			if u.Size > 200000 {
				u.Size = rapid.IntRange(0, 200000).Draw(t, "size2")
			}
		}
		if u.Chunk == 1 && u.Size > 300 {
			u.Chunk = 100
		}
		if u.Chunk == 100 && u.Size > 30000 {
			u.Chunk = 1000
		}
		if rapid.IntRange(0, 3).Draw(t, "pad") == 0 {
			u.Pad = rapid.SampledFrom([]int{1, 2, 100, 256}).Draw(t, "padlen")
		}
		u.Empty = rapid.IntRange(0, 4).Draw(t, "empty") == 0
		total += u.Size
		c.Ups = append(c.Ups, u)
	}
	c.Repeat = rapid.SampledFrom([]int{1, 1, 2, 5, 20, -1}).Draw(t, "repeat")
	for c.Repeat > 1 && total*c.Repeat > 12<<20 {
		c.Repeat /= 2
	}
	if c.Repeat < 0 && total < 5000 {
		// a long case has to reach 9 MiB: keep the number of streams bounded
		c.Ups[0].Size += 5000
	}
	return c
}

func TestC14(t *testing.T) {
	s := newSuite(t, "C14",
		"server receiving: 1..5 uploads (sizes up to 200000, chunk 1..16128, padding 0..255 per frame which counts against the window, empty frames, 1..3 interleaved), some ending in a stream error (body over MaxRequestBodySize with further frames in flight, content-length mismatch, peer RST mid-body), the list repeated 1..20 times or, in long cases, until 2.2 connection windows (65535+4MiB each) have been sent on the one connection; the sender is a model that sends only when its ledger (from the server's SETTINGS and WINDOW_UPDATEs) allows and otherwise waits for quiescence. Oracle: no WINDOW_UPDATE of 0, no window above 2^31-1; at quiescence a sender that still has octets for a stream that is open at the server can send (else: starved; a cumulative leak shows as starvation in the long cases). Non-trivial = more than two connection windows moved with at least one errored stream, or padded frames; distinct by case hash.")
	defer s.finish()
	runLane(s, Lane[c14Case]{Name: "server", Journal: true, Quick: 800, Thor: 100000, Gen: c14Gen, Run: c14Run})
}
