package props

import (
	"fmt"
	"strings"
	"testing"
	"time"

	"github.com/dgrr/http2"

	"pgregory.net/rapid"

	"verif/harness/ev"
	"verif/harness/peer"
	"verif/harness/rawframe"
	"verif/harness/refhpack"
	"verif/harness/speer"
)

// C14 — receivers hand flow-control credit back so a conforming sender never starves.

type c14Up struct {
	Kind  string `json:"kind"` // ok, toobig, cl-small (body shorter than declared), cl-over (body longer than declared), rst-mid, burst-after-error
	Size  int    `json:"size"`
	Chunk int    `json:"chunk"`
	Pad   int    `json:"pad,omitempty"` // >0: every DATA frame padded with pad-1 octets
	Empty bool   `json:"empty,omitempty"`
}

type c14Case struct {
	Ups     []c14Up `json:"ups"`
	Repeat  int     `json:"repeat"`        // the whole list is uploaded this many times on one connection
	MaxBody int     `json:"maxbody"`       // server's MaxRequestBodySize
	Par     int     `json:"par,omitempty"` // uploads interleaved (1..3)
}

// sender side ledger of what the server allows us to send
type c14Ledger struct {
	conn    int64
	init    int64
	stream  map[uint32]int64
	evIdx   int
	bad     string
	credits int64
}

func (l *c14Ledger) absorb(h *peer.H) {
	evs := h.EventsCopy()
	for _, e := range evs[l.evIdx:] {
		switch e.Kind {
		case "settings":
			for _, s := range e.Settings {
				if s[0] == 4 {
					d := int64(s[1]) - l.init
					l.init = int64(s[1])
					for id := range l.stream {
						l.stream[id] += d
					}
				}
			}
		case "window":
			if e.Incr == 0 && l.bad == "" {
				l.bad = fmt.Sprintf("WINDOW_UPDATE with an increment of 0 on stream %d", e.Stream)
			}
			if e.Stream == 0 {
				l.conn += int64(e.Incr)
				l.credits += int64(e.Incr)
				if l.conn > 1<<31-1 && l.bad == "" {
					l.bad = fmt.Sprintf("connection window pushed to %d (> 2^31-1)", l.conn)
				}
			} else if _, ok := l.stream[e.Stream]; ok {
				l.stream[e.Stream] += int64(e.Incr)
				if l.stream[e.Stream] > 1<<31-1 && l.bad == "" {
					l.bad = fmt.Sprintf("window of stream %d pushed to %d (> 2^31-1)", e.Stream, l.stream[e.Stream])
				}
			}
		}
	}
	l.evIdx = len(evs)
}

func c14Run(c c14Case) Outcome {
	h := peer.Start(peer.Config{MaxConcurrentStreams: 100, MaxRequestBodySize: c.MaxBody, DefaultResp: peer.Resp{Status: 200}})
	defer h.Close()
	h.SendSettings(nil)
	if ok, d := h.Quiesce(); !ok {
		return Outcome{Inconcl: "no quiescence after the preface: " + d}
	}
	l := &c14Ledger{conn: 65535, init: 65535, stream: map[uint32]int64{}}
	l.absorb(h)
	startConn := l.conn
	id := uint32(1)
	var sentTotal int64
	errored := 0
	padded := false

	type up struct {
		u      c14Up
		id     uint32
		rest   []byte
		opened bool
		dead   bool // the server reset it (seen at a quiescent point) or we did
		done   bool
		sent   int
	}
	isReset := func(sid uint32) bool {
		for _, e := range h.EventsCopy() {
			if e.Kind == "rst" && e.Stream == sid {
				return true
			}
			if e.Kind == "headers" && e.Stream == sid {
				return true // answered: the server is done with the request
			}
		}
		return false
	}
	// step sends the next frame of an upload if the ledger allows; returns
	// (progressed, starved-description)
	step := func(x *up) (bool, string) {
		if x.done {
			return false, ""
		}
		if !x.opened {
			x.id = id
			id += 2
			tag := fmt.Sprintf("u%d", x.id)
			r := simpleReq(tag)
			r.Method = "POST"
			list := r.HeaderList()
			if x.u.Kind == "cl-small" {
				list = append(list, peer.FieldSpec{F: refhpack.Field{Name: "content-length", Value: fmt.Sprint(x.u.Size + 7)}, R: refhpack.Rep{Kind: 2, NameIdx: true}})
			}
			if x.u.Kind == "cl-over" {
				// declares less than it sends: the body crosses the declared length somewhere
				list = append(list, peer.FieldSpec{F: refhpack.Field{Name: "content-length", Value: fmt.Sprint(x.u.Size / 2)}, R: refhpack.Rep{Kind: 2, NameIdx: true}})
			}
			h.OpenStream(x.id)
			_ = h.Write(peer.SplitBlock(x.id, h.EncodeBlock(nil, list), nil, false, 0, false, 0, false, 0)[0])
			l.stream[x.id] = l.init
			x.rest = peer.BodyFor(tag, x.u.Size)
			x.opened = true
			return true, ""
		}
		if x.dead {
			x.done = true
			return false, ""
		}
		n := x.u.Chunk
		if n > len(x.rest) {
			n = len(x.rest)
		}
		if x.u.Empty && x.sent%3 == 1 {
			n = 0
		}
		last := n == len(x.rest)
		cost := int64(n)
		payload := x.rest[:n]
		var fl byte
		if x.u.Pad > 0 {
			fl |= rawframe.FlagPadded
			payload = rawframe.Padded(payload, x.u.Pad-1, 0)
			cost = int64(len(payload))
			padded = true
		}
		if cost > 0 && (l.conn < cost || l.stream[x.id] < cost) {
			return false, fmt.Sprintf("stream %d needs %d octets of window to send its next DATA frame; stream window %d, connection window %d", x.id, cost, l.stream[x.id], l.conn)
		}
		if x.u.Kind == "rst-mid" && x.sent >= 2 {
			_ = h.Write(rawframe.Append(nil, rawframe.RstStream, 0, x.id, rawframe.U32(8)))
			x.dead, x.done = true, true
			errored++
			return true, ""
		}
		if last {
			fl |= rawframe.FlagEndStream
		}
		_ = h.Write(rawframe.Append(nil, rawframe.Data, fl, x.id, payload))
		l.conn -= cost
		l.stream[x.id] -= cost
		sentTotal += cost
		x.rest = x.rest[n:]
		x.sent++
		if last {
			x.done = true
		}
		return true, ""
	}

	par := c.Par
	if par < 1 {
		par = 1
	}
	// The list is cycled Repeat times; a "long" case (Repeat < 0) goes on until
	// 2.2 connection windows have been sent, which is what it takes for a
	// cumulative credit leak to starve the sender.
	var queue []*up
	cycles := 0
	refill := func() {
		if c.Repeat >= 0 && cycles >= c.Repeat {
			return
		}
		if c.Repeat < 0 && (sentTotal > startConn*22/10 || cycles > 4000) {
			return
		}
		cycles++
		for _, u := range c.Ups {
			queue = append(queue, &up{u: u})
		}
	}
	refill()
	var active []*up
	for len(queue) > 0 || len(active) > 0 {
		for len(active) < par && len(queue) > 0 {
			active = append(active, queue[0])
			queue = queue[1:]
			if len(queue) == 0 {
				refill()
			}
		}
		progressed := false
		starved := ""
		for _, x := range active {
			// "burst-after-error" keeps writing without looking at what came back
			burst := 1
			if x.u.Kind == "burst-after-error" || x.u.Kind == "toobig" {
				burst = 4
			}
			for b := 0; b < burst; b++ {
				p, s := step(x)
				if p {
					progressed = true
				}
				if s != "" {
					starved = s
					break
				}
			}
		}
		var na []*up
		for _, x := range active {
			if !x.done {
				na = append(na, x)
			}
		}
		active = na
		if progressed && starved == "" {
			continue
		}
		// nothing could be sent (or someone is blocked): let the receiver catch up
		if ok, d := h.Quiesce(); !ok {
			return Outcome{Inconcl: "no quiescence: " + d}
		}
		l.absorb(h)
		if l.bad != "" {
			return fail("bad-window-update", "%s", l.bad)
		}
		for _, x := range active {
			if x.opened && !x.dead && isReset(x.id) {
				x.dead = true
				errored++
			}
		}
		if ga := peer.GoAways(h.EventsCopy()); len(ga) > 0 {
			return fail("goaway:"+peer.CodeName(ga[0].Code), "GOAWAY(%s, %q) while a conforming sender was uploading", peer.CodeName(ga[0].Code), ga[0].Debug)
		}
		if !progressed {
			// at quiescence, with every credit absorbed: can anybody move?
			can := false
			why := ""
			for _, x := range active {
				if x.dead || !x.opened {
					can = true
					continue
				}
				n := x.u.Chunk
				if n > len(x.rest) {
					n = len(x.rest)
				}
				cost := int64(n)
				if x.u.Pad > 0 {
					cost += int64(x.u.Pad)
				}
				if l.conn >= cost && l.stream[x.id] >= cost {
					can = true
				} else {
					why = fmt.Sprintf("stream %d (still open at the server) needs %d octets; stream window %d, connection window %d", x.id, cost, l.stream[x.id], l.conn)
				}
			}
			if !can && len(active) > 0 {
				return fail("starved", "sender starved after %d octets (%d streams ended in an error): %s; the server is quiescent and has returned %d octets of connection credit in total (initial connection window %d)", sentTotal, errored, why, l.credits, startConn)
			}
		}
	}
	if ok, d := h.Quiesce(); !ok {
		return Outcome{Inconcl: "no quiescence at the end: " + d}
	}
	l.absorb(h)
	if l.bad != "" {
		return fail("bad-window-update", "%s", l.bad)
	}
	cls := []string{}
	if errored > 0 {
		cls = append(cls, "errored")
	}
	if padded {
		cls = append(cls, "padded")
	}
	if sentTotal > 2*startConn {
		cls = append(cls, "over-2-windows")
	}
	if len(c.Ups) == 1 && c.Repeat < 0 {
		cls = append(cls, "mono:"+c.Ups[0].Kind)
	}
	return Outcome{NonTrivial: (sentTotal > 2*startConn && errored > 0) || padded, Classes: cls}
}

func c14Gen(t *rapid.T) c14Case {
	c := c14Case{MaxBody: rapid.SampledFrom([]int{1000, 20000, 1 << 20}).Draw(t, "maxbody"), Par: rapid.IntRange(1, 3).Draw(t, "par")}
	n := rapid.IntRange(1, 5).Draw(t, "n")
	total := 0
	for i := 0; i < n; i++ {
		u := c14Up{Kind: rapid.SampledFrom([]string{"ok", "ok", "toobig", "cl-small", "cl-over", "rst-mid", "burst-after-error"}).Draw(t, "kind")}
		u.Chunk = rapid.SampledFrom([]int{1, 100, 1000, 8000, 16000, 16384 - 256}).Draw(t, "chunk")
		switch u.Kind {
		case "toobig", "burst-after-error":
			u.Size = c.MaxBody + rapid.IntRange(1, 70000).Draw(t, "extra")
			if u.Chunk < 1000 {
				u.Chunk = 8000
			}
		default:
			u.Size = rapid.IntRange(0, c.MaxBody).Draw(t, "size")
			if u.Size > 200000 {
				u.Size = rapid.IntRange(0, 200000).Draw(t, "size2")
			}
		}
		if u.Chunk == 1 && u.Size > 300 {
			u.Chunk = 100
		}
		if u.Chunk == 100 && u.Size > 30000 {
			u.Chunk = 1000
		}
		if rapid.IntRange(0, 3).Draw(t, "pad") == 0 {
			u.Pad = rapid.SampledFrom([]int{1, 2, 100, 256}).Draw(t, "padlen")
		}
		u.Empty = rapid.IntRange(0, 4).Draw(t, "empty") == 0
		total += u.Size
		c.Ups = append(c.Ups, u)
	}
	c.Repeat = rapid.SampledFrom([]int{1, 1, 2, 5, 20, -1}).Draw(t, "repeat")
	for c.Repeat > 1 && total*c.Repeat > 12<<20 {
		c.Repeat /= 2
	}
	if c.Repeat < 0 && total < 5000 {
		// a long case has to reach 9 MiB: keep the number of streams bounded
		c.Ups[0].Size += 5000
	}
	if rapid.IntRange(0, 5).Draw(t, "mono") == 0 {
		// one kind of failing upload of one or two frames, repeated until 2.2
		// windows have moved: a per-stream leak is not diluted by healthy traffic
		u := c14Up{Kind: rapid.SampledFrom([]string{"toobig", "cl-small", "cl-over", "rst-mid", "burst-after-error"}).Draw(t, "monokind")}
		u.Chunk = rapid.SampledFrom([]int{4000, 16000, 16384 - 256}).Draw(t, "monochunk")
		u.Size = u.Chunk * rapid.IntRange(1, 2).Draw(t, "monoframes")
		if u.Kind == "toobig" || u.Kind == "burst-after-error" {
			c.MaxBody = 1000
		} else {
			c.MaxBody = 1 << 20
		}
		if u.Kind == "rst-mid" {
			u.Size = u.Chunk * 3
		}
		if rapid.IntRange(0, 2).Draw(t, "monopad") == 0 {
			u.Pad = rapid.SampledFrom([]int{2, 256}).Draw(t, "monopadlen")
		}
		c.Ups, c.Repeat, c.Par = []c14Up{u}, -1, rapid.IntRange(1, 2).Draw(t, "monopar")
	}
	return c
}

func TestC14(t *testing.T) {
	s := newSuite(t, "C14",
		"server receiving: 1..5 uploads (sizes up to 200000, chunk 1..16128, padding 0..255 per frame which counts against the window, empty frames, 1..3 interleaved), some ending in a stream error (body over MaxRequestBodySize with further frames in flight, content-length mismatch, peer RST mid-body), the list repeated 1..20 times or, in long cases, until 2.2 connection windows (65535+4MiB each) have been sent on the one connection; the sender is a model that sends only when its ledger (from the server's SETTINGS and WINDOW_UPDATEs) allows and otherwise waits for quiescence. Oracle: no WINDOW_UPDATE of 0, no window above 2^31-1; at quiescence a sender that still has octets for a stream that is open at the server can send (else: starved; a cumulative leak shows as starvation in the long cases). Non-trivial = more than two connection windows moved with at least one errored stream, or padded frames; distinct by case hash.")
	defer s.finish()
	runLane(s, Lane[c14Case]{Name: "server", Journal: true, Quick: 800, Thor: 12000, Gen: c14Gen, Run: c14Run})
	runLane(s, Lane[c14CCase]{Name: "client", Journal: true, Quick: 96, Thor: 1600, Gen: c14CGen, Run: c14CRun})
}

// ---- client receiving -------------------------------------------------------

type c14Down struct {
	Kind  string `json:"kind"` // ok, abandoned (the caller times out first; the server sends the body anyway, as if it had not seen the RST_STREAM yet)
	Size  int    `json:"size"`
	Chunk int    `json:"chunk"`
	Pad   int    `json:"pad,omitempty"`
	Empty bool   `json:"empty,omitempty"` // empty DATA frames in between (all padding when Pad > 0, zero-length otherwise)
}

type c14CCase struct {
	Downs  []c14Down `json:"downs"`
	Repeat int       `json:"repeat"` // <0: long case, repeated until 2.2 connection windows have moved or the abandoned streams can take no more, then an "ok" probe
	// caller timeout in ms (0 = 150); long cases made only of abandoned downloads use a short one
	TimeoutMs int `json:"timeout_ms,omitempty"`
}

const c14CTimeout = 150 * time.Millisecond

func c14CRun(c c14CCase) Outcome {
	timeout := c14CTimeout
	if c.TimeoutMs > 0 {
		timeout = time.Duration(c.TimeoutMs) * time.Millisecond
	}
	if ms := ev.EnvInt("VERIF_C14_TIMEOUT_MS", 0); ms > 0 && c.TimeoutMs > 0 {
		timeout = time.Duration(ms) * time.Millisecond // experiment knob (not used by the checks)
	}
	env, err := speer.NewEnv(http2.ClientOpts{PingInterval: time.Hour, MaxResponseTime: timeout})
	if err != nil {
		return Outcome{Inconcl: "cannot set the client up: " + err.Error()}
	}
	defer env.Close()
	sc := env.Conn(0)
	if sc == nil {
		return Outcome{Inconcl: "no connection"}
	}
	l := &c14Ledger{conn: 65535, init: 65535, stream: map[uint32]int64{}}
	absorb := func() {
		evs := sc.EventsCopy()
		for _, e := range evs[l.evIdx:] {
			switch e.Kind {
			case "settings":
				for _, s := range e.Settings {
					if s[0] == 4 {
						d := int64(s[1]) - l.init
						l.init = int64(s[1])
						for id := range l.stream {
							l.stream[id] += d
						}
					}
				}
			case "window":
				if e.Incr == 0 && l.bad == "" {
					l.bad = fmt.Sprintf("WINDOW_UPDATE with an increment of 0 on stream %d", e.Stream)
				}
				if e.Stream == 0 {
					l.conn += int64(e.Incr)
					l.credits += int64(e.Incr)
					if l.conn > 1<<31-1 && l.bad == "" {
						l.bad = fmt.Sprintf("connection window pushed to %d", l.conn)
					}
				} else if _, ok := l.stream[e.Stream]; ok {
					l.stream[e.Stream] += int64(e.Incr)
					if l.stream[e.Stream] > 1<<31-1 && l.bad == "" {
						l.bad = fmt.Sprintf("window of stream %d pushed to %d", e.Stream, l.stream[e.Stream])
					}
				}
			}
		}
		l.evIdx = len(evs)
	}
	if ok, d := env.Quiesce(); !ok {
		return Outcome{Inconcl: "no quiescence at the start: " + d}
	}
	absorb()
	startConn := l.conn
	var sentTotal int64
	abandoned := 0
	padded := false
	seq := 0
	connBlocked := false // an abandoned download stopped because the connection window was spent
	download := func(dn c14Down) *Outcome {
		{
			seq++
			tag := fmt.Sprintf("d%d", seq)
			call := env.Do(speer.ReqSpec{Tag: tag, Method: "GET", Path: "/" + tag})
			if ok, d := env.Quiesce(); !ok {
				{
					o := Outcome{Inconcl: "no quiescence after the request: " + d}
					return &o
				}
			}
			var id uint32
			for _, e := range sc.EventsCopy() {
				if e.Kind == "headers" {
					for _, f := range e.Fields {
						if f.Name == ":path" && peer.TagOfURI(f.Value) == tag {
							id = e.Stream
						}
					}
				}
			}
			if id == 0 {
				if call.Finished() && call.Err != nil && strings.Contains(call.Err.Error(), "timed out") {
					// the caller's (real, short) MaxResponseTime ran out while the request was still queued in the
					// client: a slow machine, not a credit problem (false alarm seen under load, DESIGN section 10)
					o := Outcome{Inconcl: "request " + tag + " timed out before the client had written it (machine too slow for the timer)"}
					return &o
				}
				if call.Finished() && call.Err != nil {
					{
						o := fail("request-failed", "request %s failed before reaching the server: %v (after %d octets downloaded, %d abandoned streams)", tag, call.Err, sentTotal, abandoned)
						return &o
					}
				}
				{
					o := Outcome{Inconcl: "request " + tag + " did not reach the server"}
					return &o
				}
			}
			absorb()
			l.stream[id] = l.init
			if dn.Kind == "abandoned" {
				// wait for the caller to give up (its MaxResponseTime); a state we wait for, not an oracle
				dl := time.Now().Add(3 * time.Second)
				for !call.Finished() && time.Now().Before(dl) {
					time.Sleep(200 * time.Microsecond)
				}
				if !call.Finished() {
					{
						o := Outcome{Inconcl: "the caller did not time out"}
						return &o
					}
				}
				abandoned++
			}
			blk := sc.EncodeBlock(nil, []peer.FieldSpec{{F: refhpack.Field{Name: ":status", Value: "200"}, R: refhpack.Rep{Kind: 0}}, {F: refhpack.Field{Name: "x-tag", Value: tag}, R: refhpack.Rep{Kind: 1}}})
			_ = sc.Write(peer.SplitBlock(id, blk, nil, false, 0, false, 0, false, 0)[0])
			rest := peer.BodyFor(tag, dn.Size)
			k := 0
			for len(rest) > 0 {
				n := dn.Chunk
				if n > len(rest) {
					n = len(rest)
				}
				if dn.Empty && k%3 == 1 {
					n = 0
				}
				k++
				payload := rest[:n]
				var fl byte
				cost := int64(n)
				if dn.Pad > 0 {
					fl |= rawframe.FlagPadded
					payload = rawframe.Padded(payload, dn.Pad-1, 0)
					cost = int64(len(payload))
					padded = true
				}
				if n == len(rest) && n > 0 {
					fl |= rawframe.FlagEndStream
				}
				for cost > 0 && (l.conn < cost || l.stream[id] < cost) {
					// blocked: let the receiver catch up and look for credit
					if ok, d := env.Quiesce(); !ok {
						{
							o := Outcome{Inconcl: "no quiescence while blocked: " + d}
							return &o
						}
					}
					before := l.conn + l.stream[id]
					absorb()
					if l.bad != "" {
						{
							o := fail("bad-window-update", "%s", l.bad)
							return &o
						}
					}
					rst := false
					for _, e := range sc.EventsCopy() {
						if e.Kind == "rst" && e.Stream == id {
							rst = true
						}
					}
					if rst && dn.Kind == "abandoned" {
						// we have now seen the client's RST_STREAM: stop sending on this stream
						if l.conn < cost {
							connBlocked = true
						}
						rest = nil
						cost = 0
						break
					}
					if l.conn+l.stream[id] == before && (l.conn < cost || l.stream[id] < cost) {
						{
							o := fail("starved", "download %s on stream %d (kind %s) needs %d octets of window: stream window %d, connection window %d; the client is quiescent after %d octets (%d streams abandoned by their callers) and has returned %d octets of connection credit in total (initial connection window %d)", tag, id, dn.Kind, cost, l.stream[id], l.conn, sentTotal, abandoned, l.credits, startConn)
							return &o
						}
					}
				}
				if rest == nil {
					break
				}
				_ = sc.Write(rawframe.Append(nil, rawframe.Data, fl, id, payload))
				l.conn -= cost
				l.stream[id] -= cost
				sentTotal += cost
				rest = rest[n:]
			}
			sc.StreamDone(id)
			if ok, d := env.Quiesce(); !ok {
				{
					o := Outcome{Inconcl: "no quiescence after the download: " + d}
					return &o
				}
			}
			absorb()
			if l.bad != "" {
				{
					o := fail("bad-window-update", "%s", l.bad)
					return &o
				}
			}
			if dn.Kind == "ok" {
				if call.Finished() && call.Err != nil && strings.Contains(call.Err.Error(), "timed out") {
					{
						o := Outcome{Inconcl: "a download that was not meant to be abandoned hit MaxResponseTime (machine too slow for the timer)"}
						return &o
					}
				}
				if !call.Finished() || call.Err != nil || string(call.Body) != string(peer.BodyFor(tag, dn.Size)) {
					{
						o := fail("download", "download %s: finished=%v err=%v body=%d bytes (want %d)", tag, call.Finished(), call.Err, len(call.Body), dn.Size)
						return &o
					}
				}
			}
		}
		return nil
	}
	if c.Repeat >= 0 {
		for rep := 0; rep < c.Repeat; rep++ {
			for _, dn := range c.Downs {
				if o := download(dn); o != nil {
					return *o
				}
			}
		}
	} else {
		for rep := 0; rep < 120 && sentTotal < startConn*22/10 && !connBlocked; rep++ {
			for _, dn := range c.Downs {
				if o := download(dn); o != nil {
					return *o
				}
			}
		}
		// the connection must still carry a small response
		if o := download(c14Down{Kind: "ok", Size: 1000, Chunk: 1000}); o != nil {
			return *o
		}
	}
	cls := []string{}
	if abandoned > 0 {
		cls = append(cls, "abandoned")
	}
	if padded {
		cls = append(cls, "padded")
	}
	if sentTotal > 2*startConn {
		cls = append(cls, "over-2-windows")
	}
	if c.Repeat < 0 {
		cls = append(cls, "long-abandoned")
	}
	return Outcome{NonTrivial: (sentTotal > 2*startConn && abandoned > 0) || padded, Classes: cls}
}

func c14CGen(t *rapid.T) c14CCase {
	var c c14CCase
	n := rapid.IntRange(1, 4).Draw(t, "n")
	total := 0
	for i := 0; i < n; i++ {
		d := c14Down{Kind: rapid.SampledFrom([]string{"ok", "ok", "abandoned"}).Draw(t, "kind")}
		d.Size = rapid.OneOf(rapid.IntRange(1, 2000), rapid.IntRange(1, 400000)).Draw(t, "size")
		d.Chunk = rapid.SampledFrom([]int{100, 1000, 8000, 16000, 16384 - 256}).Draw(t, "chunk")
		if d.Chunk == 100 && d.Size > 20000 {
			d.Chunk = 4000
		}
		if rapid.IntRange(0, 2).Draw(t, "pad") == 0 {
			d.Pad = rapid.SampledFrom([]int{1, 2, 100, 256}).Draw(t, "padlen")
		}
		d.Empty = rapid.IntRange(0, 3).Draw(t, "empty") == 0 // with Pad 0 these are plain zero-length DATA frames
		total += d.Size
		c.Downs = append(c.Downs, d)
	}
	c.Repeat = rapid.SampledFrom([]int{1, 1, 2, 4, 8}).Draw(t, "repeat")
	for c.Repeat > 1 && total*c.Repeat > 6<<20 {
		c.Repeat /= 2
	}
	if rapid.IntRange(0, 3).Draw(t, "mono") == 0 {
		// only abandoned downloads, frames mostly padding or mostly data, until
		// 2.2 connection windows have moved; then a probe
		d := c14Down{Kind: "abandoned"}
		d.Chunk = rapid.SampledFrom([]int{1, 100, 4000, 16000}).Draw(t, "monochunk")
		d.Pad = rapid.SampledFrom([]int{0, 2, 256, 256}).Draw(t, "monopad")
		d.Size = d.Chunk * rapid.SampledFrom([]int{40, 400, 4000}).Draw(t, "monoframes")
		if d.Size > 2<<20 {
			d.Size = 2 << 20
		}
		d.Empty = rapid.Bool().Draw(t, "monoempty")
		c.Downs, c.Repeat, c.TimeoutMs = []c14Down{d}, -1, 30
	}
	return c
}
