package props

import (
	"fmt"
	"strings"
	"sync"
	"testing"
	"time"

	"pgregory.net/rapid"

	"verif/harness/peer"
	"verif/harness/rawframe"
	"verif/harness/refhpack"
)

// C13 — server work and memory per connection stay within the configured limits.

type c13Op struct {
	K string `json:"k"` // reset-flood, half-open, prio-new, cont-fields, cont-string, big-body, misdeclared, big-headers, ping-flood, settings-flood, release, complete
	N int    `json:"n"` // repetitions / frames
	B int    `json:"b,omitempty"`
}

type c13Case struct {
	MaxStreams int     `json:"maxstreams"`
	MaxBody    int     `json:"maxbody"`
	MaxHdr     int     `json:"maxhdr"`
	Ops        []c13Op `json:"ops"`
	Times      int     `json:"times"` // the schedule is played this many times on one connection (metamorphic: gauges must not grow with it)
}

type c13Gauges struct {
	streams, open, hdr, body int64
}

// c13ClosedBound calibrates, once per process, how many closed stream ids the
// server remembers: the high-water mark after 2000 and after 5000 plain
// requests on one connection. The two must agree (the memory does not grow
// with the number of streams); that value is the bound for every case, so the
// check does not depend on the size the implementation happens to choose.
var c13Closed struct {
	once sync.Once
	k    int64
	why  string
}

func c13ClosedBound() (int64, string) {
	c13Closed.once.Do(func() {
		play := func(n int) (int64, string) {
			h := peer.Start(peer.Config{MaxConcurrentStreams: 8, MaxRequestBodySize: 1000, DefaultResp: peer.Resp{Status: 200}})
			defer h.Close()
			h.SendSettings(nil)
			id := uint32(1)
			for i := 0; i < n; i++ {
				// an indexed-only block: the same octets for every stream
				_ = h.Write(rawframe.Append(nil, rawframe.Headers, rawframe.FlagEndHeaders|rawframe.FlagEndStream, id, []byte{0x82, 0x87, 0x84, 0x41, 0x01, 'a'}))
				id += 2
				if i%8 == 7 {
					if ok, d := h.Quiesce(); !ok {
						return 0, "calibration: no quiescence: " + d
					}
					h.Replenish()
				}
			}
			if ok, d := h.Quiesce(); !ok {
				return 0, "calibration: no quiescence: " + d
			}
			return h.Stats.MaxClosedSet.Load(), ""
		}
		k1, w1 := play(2000)
		k2, w2 := play(5000)
		switch {
		case w1 != "" || w2 != "":
			// cannot calibrate: fall back to a bound no sane implementation needs
			c13Closed.k = 1 << 16
		case k2 > k1:
			c13Closed.why = fmt.Sprintf("the server remembers %d closed stream ids after 2000 plain requests on a connection and %d after 5000: the memory grows with the number of streams", k1, k2)
		default:
			c13Closed.k = k2
			if c13Closed.k < 8 {
				c13Closed.k = 8
			}
		}
	})
	return c13Closed.k, c13Closed.why
}

func c13Play(c c13Case, times int) (Outcome, c13Gauges, int) {
	h := peer.Start(peer.Config{MaxConcurrentStreams: c.MaxStreams, MaxRequestBodySize: c.MaxBody, MaxHeaderListSize: c.MaxHdr,
		DefaultResp: peer.Resp{Status: 200, Gate: true}, Responses: map[string]peer.Resp{"now": {Status: 200, BodyLen: 2}}})
	defer h.Close()
	h.SendSettings(nil)
	id := uint32(1)
	frames := 0
	var parkedTags []string
	forbidden := map[string]string{} // tags that must never reach the handler
	sampledParked := false
	next := func() uint32 { x := id; id += 2; return x }
	write := func(b []byte) { _ = h.Write(b); frames++ }
	var g c13Gauges
	dead := false
	check := func(where string) *Outcome {
		if ok, d := h.Quiesce(); !ok {
			return &Outcome{Inconcl: "no quiescence " + where + ": " + d}
		}
		h.Replenish()
		evs := h.EventsCopy()
		if len(peer.GoAways(evs)) > 0 || peer.HasEOF(evs) {
			dead = true
		}
		st := h.Stats
		_, _, parked := h.HandlerCounts()
		if parked > 0 {
			sampledParked = true
		}
		if h.MaxInFlight > c.MaxStreams {
			o := fail("handlers-over-limit", "%s: %d handlers ran at once, MaxConcurrentStreams is %d", where, h.MaxInFlight, c.MaxStreams)
			return &o
		}
		if n := st.MaxStreams.Load(); n > int64(c.MaxStreams)+1 {
			o := fail("stream-table", "%s: the stream table reached %d entries, MaxConcurrentStreams is %d", where, n, c.MaxStreams)
			return &o
		}
		if k, why := c13ClosedBound(); why != "" {
			o := fail("closed-set-grows", "%s", why)
			return &o
		} else if n := st.MaxClosedSet.Load(); n > k {
			o := fail("closed-set", "%s: closed-stream memory reached %d ids; under a plain flood of complete requests it settles at %d, however many streams come and go", where, n, k)
			return &o
		}
		if n := st.MaxHeaderBuf.Load(); n > int64(c.MaxHdr)+16384+64 {
			o := fail("header-buffer", "%s: %d octets of undecoded header block are buffered, MaxHeaderListSize is %d", where, n, c.MaxHdr)
			return &o
		}
		if n := st.MaxDiscardedBytes.Load(); n > int64(c.MaxHdr)+16384+64 {
			o := fail("header-buffer", "%s: %d octets of a header block that is being discarded (refused or reset stream) are buffered, MaxHeaderListSize is %d", where, n, c.MaxHdr)
			return &o
		}
		if n := st.MaxBodyBuf.Load(); n > int64(c.MaxStreams+1)*int64(c.MaxBody) {
			o := fail("body-buffer", "%s: %d octets of request body are buffered, the limits allow %d x %d", where, n, c.MaxStreams, c.MaxBody)
			return &o
		}
		for _, sn := range h.SeenCopy() {
			if len(sn.Body) > c.MaxBody {
				o := fail("body-over-limit", "%s: handler of %s got a body of %d octets, MaxRequestBodySize is %d", where, sn.Tag, len(sn.Body), c.MaxBody)
				return &o
			}
			if why, bad := forbidden[sn.Tag]; bad {
				o := fail("dispatched-over-limit", "%s: handler ran for %s although %s", where, sn.Tag, why)
				return &o
			}
		}
		g = c13Gauges{st.Streams.Load(), st.OpenStreams.Load(), st.HeaderBytes.Load(), st.BodyBytes.Load()}
		return nil
	}
	reqBlock := func(tag string, endStream bool, extra []peer.FieldSpec) []byte {
		r := simpleReq(tag)
		r.Method = "POST"
		r.Fields = append(r.Fields, extra...)
		return peer.SplitBlock(0, h.EncodeBlock(nil, r.HeaderList()), nil, endStream, 0, false, 0, false, 0)[0]
	}
	setStream := func(frame []byte, sid uint32) []byte {
		f := append([]byte{}, frame...)
		f[5], f[6], f[7], f[8] = byte(sid>>24), byte(sid>>16), byte(sid>>8), byte(sid)
		return f
	}
	for rep := 0; rep < times && !dead; rep++ {
		for oi, op := range c.Ops {
			if dead {
				break
			}
			where := fmt.Sprintf("round %d op %d %s x%d", rep, oi, op.K, op.N)
			switch op.K {
			case "reset-flood":
				for i := 0; i < op.N; i++ {
					sid := next()
					tag := fmt.Sprintf("r%d", sid)
					write(setStream(reqBlock(tag, true, nil), sid))
					write(rawframe.Append(nil, rawframe.RstStream, 0, sid, rawframe.U32(8)))
					parkedTags = append(parkedTags, tag)
				}
			case "half-open":
				for i := 0; i < op.N; i++ {
					sid := next()
					write(setStream(reqBlock(fmt.Sprintf("h%d", sid), false, nil), sid))
					if op.B > 0 {
						write(rawframe.Append(nil, rawframe.Data, 0, sid, make([]byte, op.B%c.MaxBody)))
					}
				}
			case "prio-new":
				for i := 0; i < op.N; i++ {
					sid := id + uint32(2*(i+1)) + 1000
					write(rawframe.Append(nil, rawframe.Priority, 0, sid, rawframe.PrioritySection(0, false, 1)))
				}
			case "cont-fields":
				sid := next()
				blk := reqBlock(fmt.Sprintf("c%d", sid), true, nil)
				blk[4] &^= rawframe.FlagEndHeaders
				write(setStream(blk, sid))
				tag := fmt.Sprintf("c%d", sid)
				size := 0
				for i := 0; i < op.N; i++ {
					f := refhpack.Field{Name: "x-flood", Value: strings.Repeat("v", 20+op.B%200)}
					b := h.EncodeBlock(nil, []peer.FieldSpec{{F: f, R: refhpack.Rep{Kind: 2}}})
					size += len(f.Name) + len(f.Value) + 32
					write(rawframe.Append(nil, rawframe.Continuation, 0, sid, b))
				}
				write(rawframe.Append(nil, rawframe.Continuation, rawframe.FlagEndHeaders, sid, nil))
				if size > c.MaxHdr {
					forbidden[tag] = fmt.Sprintf("its header list is over %d octets (MaxHeaderListSize %d)", size, c.MaxHdr)
				} else {
					parkedTags = append(parkedTags, tag)
				}
			case "cont-string":
				// one literal whose declared length is never reached
				sid := next()
				blk := reqBlock(fmt.Sprintf("s%d", sid), true, nil)
				blk[4] &^= rawframe.FlagEndHeaders
				write(setStream(blk, sid))
				forbidden[fmt.Sprintf("s%d", sid)] = "its header block never completed"
				first := refhpack.AppendInt([]byte{0x00, 0x01, 'x'}, 7, 0, 1<<22, 0)
				write(rawframe.Append(nil, rawframe.Continuation, 0, sid, first))
				for i := 0; i < op.N; i++ {
					write(rawframe.Append(nil, rawframe.Continuation, 0, sid, make([]byte, 1000+op.B%8000)))
				}
			case "big-body":
				sid := next()
				tag := fmt.Sprintf("b%d", sid)
				write(setStream(reqBlock(tag, false, nil), sid))
				forbidden[tag] = fmt.Sprintf("its body is over MaxRequestBodySize %d", c.MaxBody)
				for sent := 0; sent <= c.MaxBody+op.B; sent += 4000 {
					write(rawframe.Append(nil, rawframe.Data, 0, sid, make([]byte, 4000)))
				}
				write(rawframe.Append(nil, rawframe.Data, rawframe.FlagEndStream, sid, nil))
			case "misdeclared":
				sid := next()
				tag := fmt.Sprintf("m%d", sid)
				write(setStream(reqBlock(tag, false, []peer.FieldSpec{{F: refhpack.Field{Name: "content-length", Value: "1"}, R: refhpack.Rep{Kind: 2, NameIdx: true}}}), sid))
				forbidden[tag] = "its content-length does not match its body"
				write(rawframe.Append(nil, rawframe.Data, rawframe.FlagEndStream, sid, make([]byte, 10+op.B%500)))
			case "big-headers":
				sid := next()
				tag := fmt.Sprintf("g%d", sid)
				val := strings.Repeat("h", c.MaxHdr+1)
				forbidden[tag] = fmt.Sprintf("its header list is over MaxHeaderListSize %d", c.MaxHdr)
				write(setStream(reqBlock(tag, true, []peer.FieldSpec{{F: refhpack.Field{Name: "x-big", Value: val}, R: refhpack.Rep{Kind: 2}}}), sid))
			case "big-trailers":
				// the header block and the trailers are each under the limit, together they are over it
				sid := next()
				tag := fmt.Sprintf("T%d", sid)
				base := 0
				for _, f := range simpleReq(tag).HeaderList() {
					base += len(f.F.Name) + len(f.F.Value) + 32
				}
				part := c.MaxHdr * 55 / 100
				hv := part - base - 32 - len("x-big") - 10
				if hv < 1 {
					hv = 1
				}
				forbidden[tag] = fmt.Sprintf("its header list and trailers together are over MaxHeaderListSize %d (about %d octets each)", c.MaxHdr, part)
				write(setStream(reqBlock(tag, false, []peer.FieldSpec{{F: refhpack.Field{Name: "x-big", Value: strings.Repeat("h", hv)}, R: refhpack.Rep{Kind: 2}}}), sid))
				write(rawframe.Append(nil, rawframe.Data, 0, sid, []byte("body")))
				tb := h.EncodeBlock(nil, []peer.FieldSpec{{F: refhpack.Field{Name: "x-trail", Value: strings.Repeat("t", part-32-len("x-trail"))}, R: refhpack.Rep{Kind: 2}}})
				write(rawframe.Append(nil, rawframe.Headers, rawframe.FlagEndHeaders|rawframe.FlagEndStream, sid, tb))
			case "refused-cont-string":
				// every slot is taken by a parked handler; one more stream is refused, and its header block goes on
				// in CONTINUATION frames with a literal that never completes: what the server keeps of a block it
				// is only decoding to stay in step must be bounded like any other
				for i := 0; i < c.MaxStreams; i++ {
					sid := next()
					tag := fmt.Sprintf("p%d", sid)
					write(setStream(reqBlock(tag, true, nil), sid))
					parkedTags = append(parkedTags, tag)
				}
				sid := next()
				blk := reqBlock(fmt.Sprintf("R%d", sid), true, nil)
				blk[4] &^= rawframe.FlagEndHeaders
				write(setStream(blk, sid))
				forbidden[fmt.Sprintf("R%d", sid)] = "its header block never completed"
				write(rawframe.Append(nil, rawframe.Continuation, 0, sid, refhpack.AppendInt([]byte{0x00, 0x01, 'x'}, 7, 0, 1<<22, 0)))
				for i := 0; i < op.N; i++ {
					write(rawframe.Append(nil, rawframe.Continuation, 0, sid, make([]byte, 1000+op.B%8000)))
				}
			case "ping-flood":
				for i := 0; i < op.N; i++ {
					write(rawframe.Append(nil, rawframe.Ping, 0, 0, []byte{0, 0, 0, 0, 0, 0, byte(i >> 8), byte(i)}))
				}
			case "settings-flood":
				for i := 0; i < op.N; i++ {
					write(rawframe.Append(nil, rawframe.Settings, 0, 0, rawframe.SettingsPayload([][2]uint32{{3, uint32(10 + i%5)}})))
				}
			case "release":
				for i := 0; i < op.N && len(parkedTags) > 0; i++ {
					h.Release(parkedTags[0])
					parkedTags = parkedTags[1:]
				}
			case "complete":
				for i := 0; i < op.N; i++ {
					sid := next()
					r := simpleReq("now")
					r.Path = fmt.Sprintf("/now/%d", sid)
					h.OpenStream(sid)
					write(setStream(peer.SplitBlock(0, h.EncodeBlock(nil, r.HeaderList()), nil, true, 0, false, 0, false, 0)[0], sid))
				}
			}
			if o := check(where); o != nil {
				return *o, g, frames
			}
		}
		// end of a round: let every handler go and every half-open stream be cancelled
		h.ReleaseAll()
		if !dead {
			for sid := uint32(1); sid < id; sid += 2 {
				write(rawframe.Append(nil, rawframe.RstStream, 0, sid, rawframe.U32(8)))
			}
		}
		if o := check(fmt.Sprintf("end of round %d", rep)); o != nil {
			return *o, g, frames
		}
	}
	cls := []string{}
	if sampledParked {
		cls = append(cls, "parked-sampled")
	}
	if dead {
		cls = append(cls, "connection-ended")
	}
	return Outcome{NonTrivial: frames >= 100 && sampledParked, Classes: cls}, g, frames
}

func c13Run(c c13Case) Outcome {
	o, g1, f1 := c13Play(c, 1)
	if o.Fail != "" || o.Inconcl != "" {
		return o
	}
	if c.Times > 1 {
		o2, g2, f2 := c13Play(c, c.Times)
		if o2.Fail != "" || o2.Inconcl != "" {
			return o2
		}
		hasEnded := false
		for _, k := range append(o.Classes, o2.Classes...) {
			if k == "connection-ended" {
				hasEnded = true
			}
		}
		if !hasEnded && g1 != g2 {
			return fail("state-grows", "the same schedule played once (%d frames) leaves stream table/open slots/header buffer/body buffer at %+v, played %d times (%d frames) at %+v: per-connection state grows with the number of frames", f1, g1, c.Times, f2, g2)
		}
		o2.Classes = append(o2.Classes, fmt.Sprintf("times=%d", c.Times))
		return o2
	}
	return o
}

func c13Gen(t *rapid.T) c13Case {
	c := c13Case{MaxStreams: rapid.IntRange(1, 8).Draw(t, "maxstreams"), MaxBody: rapid.SampledFrom([]int{1000, 8000, 65536}).Draw(t, "maxbody"),
		MaxHdr: rapid.SampledFrom([]int{600, 2048, 8192}).Draw(t, "maxhdr"), Times: rapid.SampledFrom([]int{1, 1, 4}).Draw(t, "times")}
	n := rapid.IntRange(1, 8).Draw(t, "nops")
	for i := 0; i < n; i++ {
		op := c13Op{K: rapid.SampledFrom([]string{"reset-flood", "reset-flood", "half-open", "prio-new", "cont-fields", "cont-string", "refused-cont-string", "big-body", "misdeclared", "big-headers", "big-trailers", "ping-flood", "settings-flood", "release", "complete"}).Draw(t, "k")}
		op.N = rapid.OneOf(rapid.IntRange(1, 20), rapid.IntRange(1, 300)).Draw(t, "n")
		op.B = rapid.IntRange(0, 9000).Draw(t, "b")
		if op.K == "cont-string" && op.N > 80 {
			op.N = 80
		}
		c.Ops = append(c.Ops, op)
	}
	return c
}

// ---- backpressure lane: queued control replies are bounded -----------------------
//
// The peer floods frames that each elicit one reply (PING, SETTINGS, requests
// over the concurrency limit) and does not read. A server whose queue of
// replies is bounded stops consuming the flood; one that keeps consuming holds
// memory proportional to the number of frames sent.

type c13BPCase struct {
	Kind string `json:"kind"` // ping | settings | refused
	N    int    `json:"n"`
}

// c13BPPlay floods n frames at a server whose peer reads nothing and returns
// how many of them the server holds (consumed minus answered on the wire) once
// it has stopped consuming.
func c13BPPlay(kind string, n int) (held int64, goaway bool, inconcl string) {
	h := peer.Start(peer.Config{MaxConcurrentStreams: 1, MaxRequestBodySize: 1000, DefaultResp: peer.Resp{Status: 200, Gate: true}})
	defer h.Close()
	h.SendSettings(nil)
	id := uint32(1)
	if kind == "refused" {
		sendReq(h, id, simpleReq("slot"))
		id += 2
	}
	if ok, d := h.Quiesce(); !ok {
		return 0, false, "no quiescence after the handshake: " + d
	}
	h.C.HoldReads(true)
	h.S.SetWriteLimit(1024)
	consumed0, written0 := h.S.Consumed(), h.S.Written()
	var flood []byte
	frameLen, replyLen := 0, 0
	for i := 0; i < n; i++ {
		var f []byte
		switch kind {
		case "ping":
			f = rawframe.Append(nil, rawframe.Ping, 0, 0, []byte{0, 0, 0, 0, byte(i >> 24), byte(i >> 16), byte(i >> 8), byte(i)})
			replyLen = 17
		case "settings":
			f = rawframe.Append(nil, rawframe.Settings, 0, 0, rawframe.SettingsPayload([][2]uint32{{3, uint32(100 + i%7)}}))
			replyLen = 9
		case "refused":
			// an indexed-only block: the same octets for every stream
			f = rawframe.Append(nil, rawframe.Headers, rawframe.FlagEndHeaders|rawframe.FlagEndStream, id, []byte{0x82, 0x87, 0x84, 0x41, 0x01, 'a'})
			id += 2
			replyLen = 13
		}
		frameLen = len(f)
		flood = append(flood, f...)
	}
	_ = h.Write(flood)
	// wait until the server has stopped consuming (it has taken everything, or it is blocked)
	last, same := int64(-1), 0
	for i := 0; i < 20000 && same < 40; i++ {
		time.Sleep(500 * time.Microsecond)
		if c := h.S.Consumed(); c == last {
			same++
		} else {
			last, same = c, 0
		}
	}
	taken := (h.S.Consumed() - consumed0) / int64(frameLen)
	left := (h.S.Written() - written0) / int64(replyLen)
	return taken - left, len(peer.GoAways(h.EventsCopy())) > 0, ""
}

func c13BPRun(c c13BPCase) Outcome {
	// the same flood at two sizes: what the server holds must have stopped
	// growing, whatever the sizes of its buffers and queues are
	h1, ga1, inc := c13BPPlay(c.Kind, c.N)
	if inc != "" {
		return Outcome{Inconcl: inc}
	}
	h2, ga2, inc := c13BPPlay(c.Kind, 2*c.N)
	if inc != "" {
		return Outcome{Inconcl: inc}
	}
	cls := []string{"bp:" + c.Kind}
	if ga1 || ga2 {
		cls = append(cls, "bp-goaway")
	}
	if h2 > h1+200 && h2 > h1+h1/4 {
		return fail("reply-queue-unbounded:"+c.Kind, "a peer that reads nothing sent %d %s frames and the server ended up holding %d of them (consumed, reply not yet on the wire); with %d frames it holds %d: what it queues grows with what the peer sends instead of the server ceasing to read", c.N, c.Kind, h1, 2*c.N, h2)
	}
	return Outcome{NonTrivial: h1 < int64(c.N), Classes: cls}
}

func c13BPGen(t *rapid.T) c13BPCase {
	return c13BPCase{Kind: rapid.SampledFrom([]string{"ping", "settings", "refused"}).Draw(t, "kind"), N: rapid.SampledFrom([]int{3000, 6000}).Draw(t, "n")}
}

func TestC13(t *testing.T) {
	s := newSuite(t, "C13",
		"adversarial schedules of 1..8 operations, each repeated up to 300 times, from {complete request + immediate RST_STREAM with a parked handler, streams left half-open with partial bodies, PRIORITY on ever-new ids, CONTINUATION floods of complete fields and of one never-completed string (on an accepted stream, and on a stream refused because every slot is held by a parked handler), body over / not matching its declared size, header list over the limit in one block or only together with the trailers, PING and SETTINGS floods, handler releases, normal requests} against small limits (MaxConcurrentStreams 1..8, MaxRequestBodySize 1000..65536, MaxHeaderListSize 600..8192), optionally played 4 times on one connection. Oracle: handlers running at once <= MaxConcurrentStreams; no handler gets a body over the limit or runs for a request whose header list / body broke a limit; hook gauges (stream table, buffered header and body octets; high-water marks) stay within limit-derived bounds; closed-id memory stays at the level it settles at under a plain flood (calibrated once per process with 2000 and 5000 requests, which must agree); playing the schedule 4 times leaves the end-of-run gauges where one pass leaves them. Backpressure lane: N and then 2N (N = 3000 or 6000) PING / SETTINGS / over-the-limit request frames written at once by a peer that reads nothing (server write buffer 1 KiB); oracle: the number of frames the server holds (consumed, reply not yet on the wire) when it stops consuming is the same for both floods (within 200 frames or 25%), i.e. the server ceases to read rather than queueing replies without bound, whatever its buffer and queue sizes are. Non-trivial = >=100 frames and a gauge sampled while a handler was parked, or (backpressure) a flood the server did not consume entirely; distinct by case hash.")
	defer s.finish()
	runLane(s, Lane[c13Case]{Name: "limits", Journal: true, Quick: 600, Thor: 30000, Gen: c13Gen, Run: c13Run})
	runLane(s, Lane[c13BPCase]{Name: "backpressure", Journal: true, Quick: 16, Thor: 400, Gen: c13BPGen, Run: c13BPRun})
}
