package props

import (
	"encoding/hex"
	"fmt"
	"testing"

	"github.com/dgrr/http2"
	"golang.org/x/net/http2/hpack"
	"pgregory.net/rapid"

	"verif/harness/refhpack"
)

// C04 — HPACK encoder output decodes to the same list and keeps tables in sync.

type c04Field struct {
	N     string `json:"n"` // hex
	V     string `json:"v"` // hex
	Store bool   `json:"st,omitempty"`
	Sens  bool   `json:"se,omitempty"`
	Prev  int    `json:"pv,omitempty"` // >0: repeat the (pv-1)%k-th field sent earlier on this connection
}

type c04Op struct {
	Sizes  []int      `json:"sizes,omitempty"` // SetMaxTableSize calls (peer SETTINGS) before this block
	Fields []c04Field `json:"fields"`
}

type c04Case struct {
	NoComp bool    `json:"nocomp,omitempty"`
	NoDyn  bool    `json:"nodyn,omitempty"`
	Ops    []c04Op `json:"ops"`
}

// sensibleField returns a HeaderField marked sensitive. The flag has no
// setter: the only way to obtain one is to decode a never-indexed literal,
// which is also how a proxy ends up re-encoding one.
func sensibleField() *http2.HeaderField {
	hp := http2.AcquireHPACK()
	defer http2.ReleaseHPACK(hp)
	hf := http2.AcquireHeaderField()
	if _, err := hp.Next(hf, []byte{0x10, 0x01, 'k', 0x01, 'v'}); err != nil || !hf.IsSensible() {
		panic("cannot build a sensitive header field")
	}
	return hf
}

func c04Run(c c04Case) Outcome {
	hp := http2.AcquireHPACK()
	defer http2.ReleaseHPACK(hp)
	hp.DisableCompression = c.NoComp
	hp.DisableDynamicTable = c.NoDyn

	ref := refhpack.NewDecoder(4096)
	xdec := hpack.NewDecoder(4096, nil)
	allowed := uint32(4096)
	var history []refhpack.Field
	nt := false
	var classes []string
	repeats := 0

	for bi, op := range c.Ops {
		for _, sz := range op.Sizes {
			hp.SetMaxTableSize(uint32(sz))
			ref.SetLimit(uint32(sz))
			xdec.SetAllowedMaxDynamicTableSize(uint32(sz))
			allowed = uint32(sz)
			nt = true
		}
		var block []byte
		var want []refhpack.Field
		for _, cf := range op.Fields {
			n, _ := hex.DecodeString(cf.N)
			v, _ := hex.DecodeString(cf.V)
			f := refhpack.Field{Name: string(n), Value: string(v), Sensitive: cf.Sens}
			if cf.Prev > 0 && len(history) > 0 {
				p := history[(cf.Prev-1)%len(history)]
				f.Name, f.Value = p.Name, p.Value
				repeats++
			}
			var hf *http2.HeaderField
			if cf.Sens {
				hf = sensibleField()
				nt = true
			} else {
				hf = http2.AcquireHeaderField()
			}
			hf.SetBytes([]byte(f.Name), []byte(f.Value))
			block = hp.AppendHeader(block, hf, cf.Store)
			http2.ReleaseHeaderField(hf)
			want = append(want, f)
			history = append(history, f)
		}
		if bi > 0 && repeats > 0 {
			nt = true
		}
		got, err := ref.DecodeBlock(block)
		if err != nil {
			return fail("invalid-block", "block %d: encoder emitted %x for %s; a strict RFC 7541 decoder fails with: %v (decoded so far %s)", bi, block, fmtFields(want), err, fmtFields(got))
		}
		if !fieldsEqual(got, want) {
			return fail("wrong-fields", "block %d: encoder emitted %x for %s; it decodes to %s", bi, block, fmtFields(want), fmtFields(got))
		}
		if xf, xerr := xnetDecode(xdec, block); xerr != nil {
			return fail("invalid-block-xnet", "block %d: encoder emitted %x for %s; x/net's decoder fails with: %v", bi, block, fmtFields(want), xerr)
		} else if len(xf) != len(want) {
			return Outcome{Inconcl: "x/net and the reference decoder disagree"}
		}
		if dyn := hp.VerifDynamic(); !ref.T.Equal(dyn) {
			return fail("table-desync", "after block %d (%x): encoder's dynamic table %v, decoder's %v", bi, block, trunc(dyn), ref.T.Entries)
		}
		if sz := hp.DynamicSize(); sz > allowed {
			return fail("over-limit", "after block %d: encoder's table holds %d bytes, the peer allowed %d", bi, sz, allowed)
		}
		if len(op.Fields) > 0 {
			if ref.MustShrinkTo >= 0 {
				return fail("no-size-update", "block %d (%x): the peer lowered the limit to %d but the block carries no such size update", bi, block, ref.MustShrinkTo)
			}
		}
	}
	if c.NoComp {
		classes = append(classes, "nocomp")
	}
	return Outcome{NonTrivial: nt, Classes: classes}
}

func c04GenName(t *rapid.T) string {
	switch rapid.IntRange(0, 6).Draw(t, "nk") {
	case 0, 1:
		return rapid.SampledFrom(staticNames).Draw(t, "sname")
	case 2:
		return rapid.SampledFrom(customNames).Draw(t, "cname")
	case 3:
		return genToken(t, "tok", 0, 30)
	case 4:
		return string(rapid.SliceOfN(rapid.Byte(), 0, 12).Draw(t, "rawname"))
	case 5:
		k := rapid.SampledFrom([]int{1, 7, 8, 9, 16, 126, 127, 128, 203, 204}).Draw(t, "k")
		b := make([]byte, k)
		for i := range b {
			b[i] = '0'
		}
		return string(b)
	default:
		return genToken(t, "tok", 100, 200)
	}
}

func c04GenValue(t *rapid.T) string {
	switch rapid.IntRange(0, 4).Draw(t, "vk") {
	case 0:
		return string(rapid.SliceOfN(rapid.Byte(), 0, 40).Draw(t, "rawval"))
	case 1:
		k := rapid.SampledFrom([]int{0, 1, 126, 127, 128, 129, 169, 170, 203, 204, 254, 255, 256, 400}).Draw(t, "k")
		c := rapid.SampledFrom([]byte("0aA~ \x00\xff")).Draw(t, "c")
		b := make([]byte, k)
		for i := range b {
			b[i] = c
		}
		return string(b)
	default:
		return genValueN(t, "v", genLen(t, "vlen", 400))
	}
}

func c04Gen(t *rapid.T) c04Case {
	c := c04Case{NoComp: rapid.IntRange(0, 3).Draw(t, "nocomp") == 0, NoDyn: rapid.IntRange(0, 5).Draw(t, "nodyn") == 0}
	nb := rapid.IntRange(1, 8).Draw(t, "nblocks")
	for i := 0; i < nb; i++ {
		var op c04Op
		if rapid.IntRange(0, 4).Draw(t, "chg") == 0 {
			k := rapid.IntRange(1, 3).Draw(t, "nchg")
			for j := 0; j < k; j++ {
				op.Sizes = append(op.Sizes, rapid.OneOf(rapid.SampledFrom([]int{0, 1, 32, 33, 64, 100, 4095, 4096, 4097, 8192, 65536}), rapid.IntRange(0, 300)).Draw(t, "size"))
			}
		}
		nf := rapid.IntRange(1, 8).Draw(t, "nf")
		for j := 0; j < nf; j++ {
			f := c04Field{Store: rapid.Bool().Draw(t, "store"), Sens: rapid.IntRange(0, 7).Draw(t, "sens") == 0}
			if rapid.IntRange(0, 2).Draw(t, "rep") == 0 {
				f.Prev = 1 + rapid.IntRange(0, 40).Draw(t, "prev")
			}
			f.N = hex.EncodeToString([]byte(c04GenName(t)))
			f.V = hex.EncodeToString([]byte(c04GenValue(t)))
			op.Fields = append(op.Fields, f)
		}
		c.Ops = append(c.Ops, op)
	}
	return c
}

func TestC04(t *testing.T) {
	s := newSuite(t, "C04",
		"sequences of 1..8 header blocks encoded with HPACK.AppendHeader (names: all static-table names, custom, empty, arbitrary bytes, runs of '0' up to Huffman-coded length 127/128; values of any bytes, lengths 0..400 with mass at 126..129/169/203/255; store and sensitive flags; repeats of earlier fields; DisableCompression / DisableDynamicTable; 0..3 SetMaxTableSize calls between blocks from {0,1,32..,4096,4097,8192,65536}); oracle = a strict RFC 7541 reference decoder (and x/net's) accepts every block, yields the same fields with the same sensitivity, its table equals the encoder's after every block, the encoder's table never exceeds the peer's limit, and a lowered limit is announced (smallest value included) at the start of the next block. Non-trivial = >=2 blocks with a repeated field, or a size change, or a sensitive field; distinct by case hash.")
	defer s.finish()
	runLane(s, Lane[c04Case]{Name: "encode", Quick: 15000, Thor: 2400000, Gen: c04Gen, Run: c04Run})
}

var _ = fmt.Sprintf
