package props

import (
	"bytes"
	"fmt"
	"io"
	"strconv"
	"strings"
	"testing"
	"time"

	"github.com/dgrr/http2"
	"github.com/valyala/fasthttp"
	xh2 "golang.org/x/net/http2"
	"pgregory.net/rapid"

	"verif/harness/peer"
	"verif/harness/rawframe"
	"verif/harness/refhpack"
	"verif/harness/speer"
)

// C12 — every client request resolves exactly once, whatever the server does.

type c12Case struct {
	N       int      `json:"n"`                // requests
	Bodies  []int    `json:"bodies"`           // request body sizes
	Modes   []int    `json:"modes,omitempty"`  // per request: 0 buffered body, 1 SetBodyStream with a declared length, 2 SetBodyStream of unknown length (bodies over 65535 octets are still waiting for window when the server's stream arrives)
	RespLen []int    `json:"resplen"`          // response body sizes
	Splits  []int    `json:"splits,omitempty"` // response header block cuts
	Muts    []c17Mut `json:"muts,omitempty"`   // frame-wise mutations of the recorded response stream
	Adv     string   `json:"adv,omitempty"`    // scripted adversary inserted into the stream
	AdvAt   int      `json:"advat,omitempty"`  // frame index where it goes
	CutAt   int      `json:"cut"`              // deliver this many octets of the response stream (mod len+1); -1 all
	End     string   `json:"end"`              // after the (possibly cut) stream: "silence", "close", "reset"
	FailW   int      `json:"failw,omitempty"`  // >0: the client's writes fail after this many octets
	// >0: the client's writes fail after this many further octets, counted from
	// the moment the server's stream is delivered (so the failure hits replies:
	// acknowledgements, WINDOW_UPDATE, RST_STREAM)
	FailLate int `json:"faillate,omitempty"`
	// the server's TLS layer writes 16 KiB records from the start (no dynamic
	// record sizing), so hundreds of small frames sit in the client's buffer at once
	BigRec  bool `json:"bigrec,omitempty"`
	CloseAt int  `json:"closeat,omitempty"` // Client.Close(): 0 never, 1 before the requests are answered, 2 after the stream was delivered, 3 concurrently with new RoundTrips
	Follow  int  `json:"follow"`            // follow-up requests on a fresh connection afterwards
	// LateRest (pure cut followed by silence only): once the callers have given up (MaxResponseTime), the server,
	// which may not have seen their RST_STREAMs yet, delivers the rest of its well-formed stream: late header blocks
	// (some ending in CONTINUATION) that insert into the dynamic table, late DATA. The follow-up requests then go
	// out on the same, still healthy connection, are answered with blocks that index those entries, and must succeed.
	LateRest bool `json:"laterest,omitempty"`
}

const c12Timeout = 250 * time.Millisecond

type c12Model struct {
	complete  bool
	malformed bool
	// a field name or value has octets outside the HTTP token / field-value grammar (bit flips produce them):
	// RFC 7540 does not fix their treatment (C20 leaves them out for the same reason), so the client may deliver
	// or refuse such a response and the content oracle does not apply
	unspecified bool
	status      string
	fields      []refhpack.Field
	body        []byte
}

// c12Reference parses the octets the server will have written and says, per
// stream, what complete response (if any) they contain. connDead reports that
// a connection-level problem precedes everything after frame index deadAt.
func c12Reference(b []byte) (map[uint32]*c12Model, bool) {
	out := map[uint32]*c12Model{}
	fr := xh2.NewFramer(io.Discard, bytes.NewReader(b))
	fr.AllowIllegalReads = true
	fr.SetMaxReadFrameSize(1<<24 - 1)
	dec := refhpack.NewDecoder(4096)
	var block []byte
	var blockStream uint32
	var blockEnd bool
	get := func(id uint32) *c12Model {
		if out[id] == nil {
			out[id] = &c12Model{}
		}
		return out[id]
	}
	ended := map[uint32]bool{}
	hdrSeen := map[uint32]bool{}
	for {
		f, err := fr.ReadFrame()
		if err != nil {
			return out, err != io.EOF && err != io.ErrUnexpectedEOF
		}
		if f.Header().Length > 16384 {
			return out, true // over the client's MAX_FRAME_SIZE: connection error
		}
		id := f.Header().StreamID
		flush := func() bool {
			fields, err := dec.DecodeBlock(block)
			block = nil
			if err != nil {
				return false
			}
			m := get(blockStream)
			if ended[blockStream] {
				return true // the response was over already: what follows on the stream cannot change what was delivered
			}
			for _, f := range fields {
				if !c12InGrammar(f) {
					m.unspecified = true
				}
			}
			if !hdrSeen[blockStream] {
				hdrSeen[blockStream] = true
				ok, _ := wellFormedResponse(fields)
				if !ok {
					m.malformed = true
				}
				for _, f := range fields {
					if f.Name == ":status" {
						m.status = f.Value
					} else {
						m.fields = append(m.fields, f)
					}
				}
			} else {
				for _, f := range fields {
					if strings.HasPrefix(f.Name, ":") || hasUpperASCII(f.Name) || connSpecific[f.Name] {
						m.malformed = true
					}
				}
				m.fields = append(m.fields, fields...)
			}
			if blockEnd {
				ended[blockStream] = true
				m.complete = !m.malformed
			}
			return true
		}
		if block != nil {
			c, ok := f.(*xh2.ContinuationFrame)
			if !ok || id != blockStream {
				return out, true
			}
			block = append(block, c.HeaderBlockFragment()...)
			if c.HeadersEnded() {
				if !flush() {
					return out, true
				}
			}
			continue
		}
		switch g := f.(type) {
		case *xh2.HeadersFrame:
			block = append([]byte{}, g.HeaderBlockFragment()...)
			blockStream, blockEnd = id, g.StreamEnded()
			if g.HeadersEnded() {
				if !flush() {
					return out, true
				}
			}
		case *xh2.ContinuationFrame:
			return out, true
		case *xh2.DataFrame:
			m := get(id)
			if ended[id] {
				continue
			}
			if !hdrSeen[id] {
				m.malformed = true
				m.complete = false
				continue
			}
			m.body = append(m.body, g.Data()...)
			if g.StreamEnded() {
				ended[id] = true
				m.complete = !m.malformed
			}
		case *xh2.RSTStreamFrame:
			m := get(id)
			if !ended[id] {
				m.malformed = true
				m.complete = false
				ended[id] = true
			}
		case *xh2.GoAwayFrame, *xh2.PushPromiseFrame:
			return out, true
		case *xh2.SettingsFrame, *xh2.WindowUpdateFrame, *xh2.PingFrame:
			// may be invalid (overflow etc.): be conservative and stop judging after those that are
			if w, ok := f.(*xh2.WindowUpdateFrame); ok && (w.Increment == 0 || w.Increment > 1<<30) {
				return out, true
			}
			if s, ok := f.(*xh2.SettingsFrame); ok {
				bad := false
				_ = s.ForeachSetting(func(x xh2.Setting) error {
					if x.Valid() != nil {
						bad = true
					}
					return nil
				})
				if bad || id != 0 {
					return out, true
				}
			}
		}
	}
}

// c12DialInProgress: some goroutine of the client is inside a dial (not merely waiting for the client's lock).
func c12DialInProgress() bool {
	for _, g := range peer.LibraryGoroutines() {
		if i := strings.Index(g, "\ncreated by "); i >= 0 {
			g = g[:i] // the loops of a connection are "created by ...(*Conn).Handshake": not a frame
		}
		if strings.Contains(g, "http2.(*Dialer).Dial") || strings.Contains(g, "http2.(*Conn).Handshake") || strings.Contains(g, "http2.(*Dialer).tryDial") {
			return true
		}
	}
	return false
}

func hasShared(c *speer.Call) bool {
	for _, f := range c.Fields {
		if f.Name == "x-shared" && f.Value == "a-value-that-is-indexed-from-the-second-response-on" {
			return true
		}
	}
	return false
}

func hasUpperASCII(s string) bool {
	for i := 0; i < len(s); i++ {
		if s[i] >= 'A' && s[i] <= 'Z' {
			return true
		}
	}
	return false
}

// c12InGrammar: name is an RFC 7230 token (after an optional leading colon), value is VCHAR / SP / HTAB / obs-text.
func c12InGrammar(f refhpack.Field) bool {
	n := strings.TrimPrefix(f.Name, ":")
	if n == "" {
		return false
	}
	for i := 0; i < len(n); i++ {
		c := n[i]
		if c <= 0x20 || c >= 0x7f || strings.IndexByte("\"(),/:;<=>?@[\\]{}", c) >= 0 {
			return false
		}
	}
	for i := 0; i < len(f.Value); i++ {
		c := f.Value[i]
		if (c < 0x20 && c != '\t') || c == 0x7f {
			return false
		}
	}
	return true
}

func c12Describe(m *c12Model) string {
	if m == nil {
		return "nothing on the stream"
	}
	return fmt.Sprintf("complete=%v malformed=%v status=%q fields=%v body=%d octets", m.complete, m.malformed, m.status, m.fields, len(m.body))
}

func c12Dump() string {
	dump := ""
	for _, g := range speer.ClientGoroutines() {
		dump += firstLines(g, 9) + "\n"
	}
	return dump
}

func c12Run(c c12Case) Outcome {
	env, err := speer.NewEnv(http2.ClientOpts{PingInterval: time.Hour, MaxResponseTime: c12Timeout}, speer.ConnPlan{BigRecords: c.BigRec})
	if err != nil {
		return Outcome{Inconcl: "cannot set the client up: " + err.Error()}
	}
	defer env.Close()
	sc := env.Conn(0)
	if sc == nil {
		return Outcome{Inconcl: "no connection"}
	}
	if c.FailW > 0 {
		sc.CliRaw.FailWritesAfter(sc.CliRaw.Written() + int64(c.FailW))
	}
	if c.CloseAt == 1 {
		go func() { _ = env.CL.Close() }()
	}
	calls := make([]*speer.Call, c.N)
	t0 := time.Now()
	for i := 0; i < c.N; i++ {
		tag := fmt.Sprintf("t%d", i)
		mode := 0
		if i < len(c.Modes) && c.Bodies[i] > 0 {
			mode = c.Modes[i]
		}
		calls[i] = env.Do(speer.ReqSpec{Tag: tag, Method: "POST", Path: "/" + tag, BodyLen: c.Bodies[i], Mode: mode, Chunks: []int{3000}})
	}
	// give the requests the time to arrive (or to fail); not a correctness signal
	_, _ = env.Quiesce()
	idOf := map[string]uint32{}
	for _, e := range sc.EventsCopy() {
		if e.Kind == "headers" {
			for _, f := range e.Fields {
				if f.Name == ":path" {
					idOf[peer.TagOfURI(f.Value)] = e.Stream
				}
			}
		}
	}
	// ---- the recorded, well-formed response stream
	var frames [][]byte
	tagOfStream := map[uint32]string{}
	for i := 0; i < c.N; i++ {
		tag := fmt.Sprintf("t%d", i)
		id, ok := idOf[tag]
		if !ok {
			continue
		}
		tagOfStream[id] = tag
		list := []peer.FieldSpec{{F: refhpack.Field{Name: ":status", Value: "200"}, R: refhpack.Rep{Kind: 0}},
			{F: refhpack.Field{Name: "x-tag", Value: tag}, R: refhpack.Rep{Kind: 1}},
			{F: refhpack.Field{Name: "x-shared", Value: "a-value-that-is-indexed-from-the-second-response-on"}, R: refhpack.Rep{Kind: 0, Alt: 1}}}
		blk := sc.EncodeBlock(nil, list)
		n := c.RespLen[i]
		frames = append(frames, peer.SplitBlock(id, blk, c.Splits, n == 0, 0, false, 0, false, 0)...)
		if n > 0 {
			frames = append(frames, peer.DataFrames(id, peer.BodyFor(tag, n), []int{700, 16000}, nil, true)...)
		}
	}
	var pre []byte
	stream := append([]byte(peer.Preface), bytes.Join(frames, nil)...)
	stream = c17Mutate(stream, c.Muts)[len(peer.Preface):]
	_ = pre
	if c.Adv != "" {
		fs, rest := rawframe.Split(stream)
		at := 0
		if len(fs) > 0 {
			at = c.AdvAt % (len(fs) + 1)
		}
		var adv []byte
		anyID := uint32(1)
		for id := range tagOfStream {
			anyID = id
		}
		switch c.Adv {
		case "rst":
			adv = rawframe.Append(nil, rawframe.RstStream, 0, anyID, rawframe.U32(uint32(c.AdvAt%9)))
		case "goaway":
			adv = rawframe.Append(nil, rawframe.GoAway, 0, 0, append(rawframe.U32(uint32(c.AdvAt%8)), rawframe.U32(uint32(c.AdvAt%3))...))
		case "oversized":
			adv = rawframe.Append(nil, rawframe.Data, 0, anyID, make([]byte, 16385+c.AdvAt%100))
		case "hpack-garbage":
			adv = rawframe.Append(nil, rawframe.Headers, rawframe.FlagEndHeaders, anyID, []byte{0xff, 0xff, 0xff, 0x7f, 0x00, 0x8f})
		case "push":
			adv = rawframe.Append(nil, rawframe.PushPromise, rawframe.FlagEndHeaders, anyID, append(rawframe.U32(2), 0x88))
		case "idle-stream":
			adv = rawframe.Append(nil, rawframe.Data, rawframe.FlagEndStream, 99, []byte("stray"))
		case "wu-overflow":
			adv = rawframe.Append(nil, rawframe.WindowUpdate, 0, uint32(c.AdvAt%2)*anyID, rawframe.U32(1<<31-1))
		case "settings-bad":
			adv = rawframe.Append(nil, rawframe.Settings, 0, 0, rawframe.SettingsPayload([][2]uint32{{5, 1}}))
		case "unknown-frame":
			adv = rawframe.Append(nil, 0x42, 0xff, anyID, []byte("whatever"))
		case "ping-flood":
			for i := 0; i < 300+400*(c.AdvAt%2); i++ {
				adv = rawframe.Append(adv, rawframe.Ping, 0, 0, make([]byte, 8))
			}
		}
		var nb []byte
		for i, f := range fs {
			if i == at {
				nb = append(nb, adv...)
			}
			nb = append(nb, f...)
		}
		if at >= len(fs) {
			nb = append(nb, adv...)
		}
		stream = append(nb, rest...)
	}
	n := len(stream)
	if c.CutAt >= 0 {
		n = c.CutAt % (len(stream) + 1)
	}
	delivered := stream[:n]
	ref, connDead := c12Reference(delivered)
	if c.FailLate > 0 {
		sc.CliRaw.FailWritesAfter(sc.CliRaw.Written() + int64(c.FailLate))
	}
	_ = sc.Write(delivered)
	switch c.End {
	case "close":
		_ = sc.SrvRaw.Close()
	case "reset":
		sc.SrvRaw.Reset()
	}
	if c.CloseAt == 2 {
		_ = env.CL.Close()
	}
	var late []*speer.Call
	if c.CloseAt == 3 {
		go func() { _ = env.CL.Close() }()
		for i := 0; i < 3; i++ {
			late = append(late, env.Do(speer.ReqSpec{Tag: fmt.Sprintf("c%d", i), Method: "GET", Path: fmt.Sprintf("/c%d", i)}))
		}
	}
	// ---- every request must resolve, within its timeout plus a margin
	deadline := t0.Add(c12Timeout + 4*time.Second)
	allDone := func() bool {
		for _, cl := range append(append([]*speer.Call{}, calls...), late...) {
			if !cl.Finished() {
				return false
			}
		}
		return true
	}
	for !allDone() && time.Now().Before(deadline) {
		time.Sleep(300 * time.Microsecond)
	}
	desc := fmt.Sprintf("server stream of %d octets (%d delivered, %d mutations, adversary %q at %d) then %s, closeAt=%d failw=%d faillate=%d", len(stream), n, len(c.Muts), c.Adv, c.AdvAt, c.End, c.CloseAt, c.FailW, c.FailLate)
	for try := 0; !allDone() && try < 26 && (c12DialInProgress() || peer.AnyLive(speer.ClientGoroutines())); try++ {
		// the bound is MaxResponseTime plus a margin on a machine that gives the client the CPU; while one of
		// its goroutines is runnable or a dial is under way it is slow, not stuck. Up to 30 s in all.
		time.Sleep(time.Second)
	}
	if !allDone() && c12DialInProgress() {
		return Outcome{Inconcl: "a request is still waiting for a connection being dialled (machine too slow)"}
	}
	if !allDone() {
		gs := speer.ClientGoroutines()
		dump := ""
		for _, g := range gs {
			dump += firstLines(g, 9) + "\n"
		}
		who := ""
		for i, cl := range calls {
			if !cl.Finished() {
				who += fmt.Sprintf(" t%d(stream %d)", i, idOf[fmt.Sprintf("t%d", i)])
			}
		}
		return fail("unresolved", "%s: requests%s have not resolved %v after they were issued (MaxResponseTime is %v); client goroutines:\n%s", desc, who, time.Since(t0).Round(time.Millisecond), c12Timeout, dump)
	}
	cls := []string{"end:" + c.End}
	if c.Adv != "" {
		cls = append(cls, "adv:"+c.Adv)
	}
	inside := false
	{
		fs, _ := rawframe.Split(stream)
		off := 0
		for _, f := range fs {
			if n > off && n < off+len(f) {
				inside = true
			}
			off += len(f)
		}
	}
	succ := 0
	for i, cl := range calls {
		tag := fmt.Sprintf("t%d", i)
		if cl.Returns.Load() != 1 {
			return fail("resolved-twice", "%s: request %s resolved %d times", desc, tag, cl.Returns.Load())
		}
		if cl.Err != nil {
			continue
		}
		succ++
		id, sent := idOf[tag]
		m := ref[id]
		if m != nil && m.unspecified {
			continue
		}
		if !sent || m == nil || !m.complete {
			if connDead {
				// the reference stopped judging at a connection-level problem; only cross-delivery is checked then,
				// and only when no frame was mutated: a flipped bit or a changed stream id can put any tag, or none,
				// on any stream, and delivering what the server sent on a stream is not cross-delivery
				if len(c.Muts) == 0 && !hasTag(cl, tag) && len(cl.Fields) > 0 {
					return fail("cross-delivery", "%s: request %s succeeded with fields %v (not its own)", desc, tag, cl.Fields)
				}
				continue
			}
			return fail("success-without-response", "%s: request %s (stream %d) was reported successful (status %d, %d body bytes) but the octets delivered do not contain a complete well-formed response on its stream (reference: %+v; delivered fields %v)", desc, tag, id, cl.Status, len(cl.Body), c12Describe(m), cl.Fields)
		}
		if strconv.Itoa(cl.Status) != m.status || string(cl.Body) != string(m.body) {
			return fail("wrong-response", "%s: request %s (stream %d) got status %d and %d body bytes; the stream carried status %s and %d bytes", desc, tag, id, cl.Status, len(cl.Body), m.status, len(m.body))
		}
		wm, gm := multiset(m.fields, nil), multiset(cl.Fields, func(n string) bool { return n == "content-length" || n == "content-type" })
		for k, nn := range wm {
			if strings.HasPrefix(k, "content-length\x00") || strings.HasPrefix(k, "content-type\x00") {
				continue
			}
			if gm[k] != nn {
				return fail("wrong-response", "%s: request %s (stream %d) got fields %v; its stream carried %v", desc, tag, id, cl.Fields, m.fields)
			}
		}
	}
	for _, cl := range late {
		if cl.Err == nil {
			return fail("success-after-close", "%s: a request issued while the client was being closed succeeded without any server having answered it", desc)
		}
	}
	late2 := c.LateRest && c.End == "silence" && n < len(stream) && len(c.Muts) == 0 && c.Adv == "" && c.FailW == 0 && c.FailLate == 0 && c.CloseAt == 0 && !connDead
	if late2 {
		_ = sc.Write(stream[n:])
		if ok, d := env.Quiesce(); !ok {
			return Outcome{Inconcl: "no quiescence after the late rest of the stream: " + d}
		}
		if c.Follow == 0 {
			c.Follow = 1
		}
		cls = append(cls, "late-rest")
	}
	// ---- a follow-up batch on a healthy connection (only when the client is still open)
	if c.CloseAt == 0 && c.Follow > 0 {
		nconn := len(env.ConnsCopy())
		var fcalls []*speer.Call
		for i := 0; i < c.Follow; i++ {
			tag := fmt.Sprintf("f%d", i)
			fcalls = append(fcalls, env.Do(speer.ReqSpec{Tag: tag, Method: "GET", Path: "/" + tag}))
		}
		fdeadline := time.Now().Add(3 * time.Second)
		for time.Now().Before(fdeadline) {
			done := true
			for _, sc2 := range env.ConnsCopy() {
				if sc2.Index < nconn-1 && sc2 != sc {
					continue
				}
				if sc2 == sc && c.End == "silence" && (connDead || n < len(stream) || len(c.Muts) > 0 || c.Adv != "") {
					// the old connection may still be in use by the client; answer there too
				}
				got := peer.Assemble(sc2.EventsCopy())
				for _, e := range sc2.EventsCopy() {
					if e.Kind != "headers" {
						continue
					}
					for _, f := range e.Fields {
						if f.Name == ":path" && strings.HasPrefix(f.Value, "/f") && !sc2.Answered(e.Stream) && got[e.Stream] != nil && got[e.Stream].EndStream > 0 {
							sc2.MarkAnswered(e.Stream)
							t := peer.TagOfURI(f.Value)
							blk := sc2.EncodeBlock(nil, []peer.FieldSpec{{F: refhpack.Field{Name: ":status", Value: "200"}, R: refhpack.Rep{Kind: 0}}, {F: refhpack.Field{Name: "x-tag", Value: t}, R: refhpack.Rep{Kind: 1}},
								{F: refhpack.Field{Name: "x-shared", Value: "a-value-that-is-indexed-from-the-second-response-on"}, R: refhpack.Rep{Kind: 0, Alt: 1}}})
							_ = sc2.Write(peer.SplitBlock(e.Stream, blk, nil, false, 0, false, 0, false, 0)[0])
							_ = sc2.Write(rawframe.Append(nil, rawframe.Data, rawframe.FlagEndStream, e.Stream, peer.BodyFor(t, 12)))
						}
					}
				}
			}
			for _, fc := range fcalls {
				if !fc.Finished() {
					done = false
				}
			}
			if done {
				break
			}
			time.Sleep(300 * time.Microsecond)
		}
		pending := func() bool {
			for _, fc := range fcalls {
				if !fc.Finished() {
					return true
				}
			}
			return false
		}
		if pending() {
			// the scripted server answers follow-ups from this very loop, so on a starved machine the 3 s can pass
			// without the exchange having had its turn: decide at quiescence instead (MaxResponseTime ends an
			// unanswered request on its own, so a request still open at quiescence is stuck in the client)
			if ok, d := env.Quiesce(); !ok {
				return Outcome{Inconcl: "follow-up requests still open and no quiescence: " + d}
			}
			time.Sleep(c12Timeout + 100*time.Millisecond)
			if ok, d := env.Quiesce(); !ok {
				return Outcome{Inconcl: "follow-up requests still open and no quiescence: " + d}
			}
		}
		for i, fc := range fcalls {
			tag := fmt.Sprintf("f%d", i)
			if !fc.Finished() {
				// MaxResponseTime starts when a request is handed to a connection; dialing one (TLS and HTTP/2
				// handshakes, under the client's lock) is outside it. A dial still in progress on a busy machine
				// is not a stuck request (false alarm seen under load, DESIGN section 10).
				if c12DialInProgress() {
					return Outcome{Inconcl: "follow-up request still waiting for a connection being dialled (machine too slow)"}
				}
				return fail("follow-up-unresolved", "%s: follow-up request %s never resolved; client goroutines:\n%s", desc, tag, c12Dump())
			}
			if late2 && fc.Err != nil && strings.Contains(fc.Err.Error(), "timed out") {
				// the follow-up's own 250 ms timer ran out before this loop had answered it (loaded machine)
				return Outcome{Inconcl: "follow-up request after late frames hit MaxResponseTime before the scripted server answered (machine too slow)"}
			}
			if late2 && fc.Err != nil {
				return fail("follow-up-failed-after-late-frames", "%s: after the callers had timed out the server delivered the rest of its (well-formed) stream; follow-up request %s on the same connection then failed: %v", desc, tag, fc.Err)
			}
			if late2 && fc.Err == nil && !hasShared(fc) {
				return fail("follow-up-wrong-response", "%s: follow-up request %s after late frames got fields %v: the indexed x-shared field is missing or wrong", desc, tag, fc.Fields)
			}
			if fc.Err == nil && (!hasTag(fc, tag) || string(fc.Body) != string(peer.BodyFor(tag, 12))) {
				return fail("follow-up-wrong-response", "%s: follow-up request %s got fields %v body %q: a stale resolution or another request's response", desc, tag, fc.Fields, headStr(fc.Body))
			}
		}
	}
	// ---- after Close nothing of the client may be left
	_ = env.CL.Close()
	for _, s2 := range env.ConnsCopy() {
		_ = s2.SrvRaw.Close()
	}
	for try := 0; ; try++ {
		gs := speer.ClientGoroutines()
		left := ""
		for _, g := range gs {
			if strings.Contains(g, "http2.(*Conn).readLoop") || strings.Contains(g, "http2.(*Conn).writeLoop") || strings.Contains(g, "http2.(*Conn).runWriteLoop") {
				left = firstLines(g, 22)
			}
		}
		if left == "" {
			break
		}
		if try > 600 {
			return fail("goroutine-left", "%s: after Client.Close and with every connection gone a loop of the client is still running:\n%s", desc, left)
		}
		time.Sleep(5 * time.Millisecond)
	}
	return Outcome{NonTrivial: inside || c.CloseAt >= 2 || c.Adv != "" || len(c.Muts) > 0, Classes: append(cls, fmt.Sprintf("succeeded=%d", succ))}
}

func c12Gen(t *rapid.T) c12Case {
	n := rapid.IntRange(1, 4).Draw(t, "n")
	c := c12Case{N: n, CutAt: rapid.OneOf(rapid.Just(-1), rapid.IntRange(0, 60000)).Draw(t, "cut"),
		End: rapid.SampledFrom([]string{"silence", "close", "reset"}).Draw(t, "end"), Follow: rapid.IntRange(0, 2).Draw(t, "follow")}
	for i := 0; i < n; i++ {
		c.Bodies = append(c.Bodies, rapid.SampledFrom([]int{0, 0, 10, 3000, 70000}).Draw(t, "body"))
		c.RespLen = append(c.RespLen, rapid.SampledFrom([]int{0, 5, 1000, 20000}).Draw(t, "resplen"))
		c.Modes = append(c.Modes, rapid.SampledFrom([]int{0, 0, 1, 2}).Draw(t, "mode"))
	}
	if rapid.Bool().Draw(t, "split") {
		c.Splits = []int{rapid.IntRange(1, 80).Draw(t, "splitat")}
	}
	c.BigRec = rapid.Bool().Draw(t, "bigrec")
	switch rapid.IntRange(0, 5).Draw(t, "kind") {
	case 0: // pure cut
		c.LateRest = rapid.Bool().Draw(t, "laterest")
		if c.LateRest {
			c.End = "silence"
			break
		}
		if rapid.IntRange(0, 3).Draw(t, "cutfail") == 0 {
			c.FailLate = rapid.OneOf(rapid.IntRange(1, 40), rapid.IntRange(1, 3000)).Draw(t, "faillate")
		}
	case 1: // mutations
		nm := rapid.IntRange(1, 3).Draw(t, "nmut")
		for i := 0; i < nm; i++ {
			c.Muts = append(c.Muts, c17Mut{K: rapid.SampledFrom([]string{"dup", "del", "flip", "lie", "swap", "type", "flags", "stream"}).Draw(t, "mk"),
				I: rapid.IntRange(0, 40).Draw(t, "mi"), J: rapid.IntRange(0, 5000).Draw(t, "mj"), V: rapid.IntRange(0, 255).Draw(t, "mv")})
		}
	case 2, 3:
		c.Adv = rapid.SampledFrom([]string{"rst", "goaway", "oversized", "hpack-garbage", "push", "idle-stream", "wu-overflow", "settings-bad", "unknown-frame", "ping-flood", "ping-flood"}).Draw(t, "adv")
		c.AdvAt = rapid.IntRange(0, 30).Draw(t, "advat")
		if rapid.IntRange(0, 2).Draw(t, "advfail") == 0 {
			c.FailLate = rapid.OneOf(rapid.IntRange(1, 40), rapid.IntRange(1, 3000)).Draw(t, "faillate")
		}
	case 4:
		c.CloseAt = rapid.IntRange(1, 3).Draw(t, "closeat")
	default:
		c.FailW = rapid.OneOf(rapid.IntRange(1, 200), rapid.IntRange(1, 80000)).Draw(t, "failw")
	}
	return c
}

// ---- bounded-exhaustive lane: every cut offset of one recorded response stream (two requests, a split header block,
// a shared HPACK entry, bodies of 5 and 900 octets) followed by close, reset and silence. Offsets past the end of the
// stream wrap around (CutAt is taken modulo its length + 1), so a few short prefixes are run twice.
const c12EnumCuts = 1120

func c12EnumAt(i int) c12Case {
	return c12Case{N: 2, Bodies: []int{0, 10}, RespLen: []int{5, 900}, Splits: []int{9}, CutAt: i / 3, End: []string{"close", "reset", "silence"}[i%3], Follow: i % 2}
}

// ---- "silence" lane: the only bound on a request without a response timer (MaxResponseTime < 0) whose server goes
// silent is the client's own PING liveness check. How many unanswered PINGs the client sends before it gives the
// connection up must not depend on what the connection did earlier: the case is run twice, once as generated and once
// with the earlier history removed (no PINGs from the server, no earlier exchanges), and the counts are compared.
// Counts of frames, not durations: a slow machine stretches both runs but changes neither count.
type c12PingCase struct {
	ServerPings int `json:"server_pings"` // PINGs the server sends (and gets acknowledged) before it goes silent
	Earlier     int `json:"earlier"`      // complete exchanges before the last request
	IntervalMs  int `json:"interval_ms"`
}

func c12PingOnce(serverPings, earlier int, interval time.Duration) (unanswered int, resolved bool, err error, inconcl string) {
	// a bare Conn from Dialer.Dial: ConfigureClient does not hand ClientOpts.PingInterval to its Dialer (the
	// connections of a Client ping every 3 s whatever is configured; noted in DESIGN 12.2, outside the listed properties)
	conn, env, e := speer.DialBare(http2.ConnOpts{PingInterval: interval})
	if e != nil {
		return 0, false, nil, "cannot dial: " + e.Error()
	}
	defer env.Close()
	defer func() { _ = conn.Close() }()
	sc := env.Conn(0)
	if sc == nil {
		return 0, false, nil, "no connection"
	}
	do := func(tag string) *http2.Ctx {
		req, res := fasthttp.AcquireRequest(), fasthttp.AcquireResponse()
		req.SetRequestURI("https://example.com/" + tag)
		req.Header.SetMethod("GET")
		ctx := &http2.Ctx{Request: req, Response: res, Err: make(chan error, 1)}
		conn.Write(ctx)
		return ctx
	}
	answer := func(tag string) bool {
		dl := time.Now().Add(5 * time.Second)
		for time.Now().Before(dl) {
			for _, ev := range sc.EventsCopy() {
				if ev.Kind != "headers" {
					continue
				}
				for _, f := range ev.Fields {
					if f.Name == ":path" && peer.TagOfURI(f.Value) == tag {
						blk := sc.EncodeBlock(nil, []peer.FieldSpec{{F: refhpack.Field{Name: ":status", Value: "200"}, R: refhpack.Rep{Kind: 0}}})
						_ = sc.Write(peer.SplitBlock(ev.Stream, blk, nil, true, 0, false, 0, false, 0)[0])
						return true
					}
				}
			}
			time.Sleep(200 * time.Microsecond)
		}
		return false
	}
	for i := 0; i < earlier; i++ {
		tag := fmt.Sprintf("e%d", i)
		ctx := do(tag)
		if !answer(tag) {
			return 0, false, nil, "an earlier request did not arrive"
		}
		select {
		case <-ctx.Err:
		case <-time.After(5 * time.Second):
			return 0, false, nil, "an earlier exchange did not finish"
		}
	}
	last := do("last")
	for i := 0; i < serverPings; i++ {
		_ = sc.Write(rawframe.Append(nil, rawframe.Ping, 0, 0, []byte{1, 2, 3, 4, 5, 6, byte(i >> 8), byte(i)}))
	}
	// all of the server's PINGs acknowledged (the connection is healthy up to here)
	dl := time.Now().Add(10 * time.Second)
	for {
		acks := 0
		for _, ev := range sc.EventsCopy() {
			if ev.Kind == "pingack" {
				acks++
			}
		}
		if acks >= serverPings {
			break
		}
		if time.Now().After(dl) {
			return 0, false, nil, "the client did not acknowledge the server's PINGs in time"
		}
		time.Sleep(200 * time.Microsecond)
	}
	sc.NoPingAck.Store(true)
	mark := len(sc.EventsCopy())
	select {
	case err = <-last.Err:
		resolved = true
	case <-time.After(10*time.Second + 60*interval):
	}
	if resolved {
		// the client gives the connection up when it gives the request up: count once our reader has seen the end
		// of what the client wrote (counting earlier can miss PINGs that were written but not parsed yet)
		seenEnd := func() bool {
			for _, ev := range sc.EventsCopy()[mark:] {
				if ev.Kind == "eof" || ev.Kind == "error" {
					return true
				}
			}
			return false
		}
		for dl := time.Now().Add(5 * time.Second); !seenEnd(); time.Sleep(200 * time.Microsecond) {
			if time.Now().After(dl) {
				return 0, resolved, err, "the request resolved but the connection was not closed, so the PINGs cannot be counted reliably"
			}
		}
	}
	for _, ev := range sc.EventsCopy()[mark:] {
		if ev.Kind == "ping" {
			unanswered++
		}
	}
	return unanswered, resolved, err, ""
}

func c12PingRun(c c12PingCase) Outcome {
	iv := time.Duration(c.IntervalMs) * time.Millisecond
	base, ok0, _, inc := c12PingOnce(0, 0, iv)
	if inc != "" {
		return Outcome{Inconcl: inc}
	}
	if !ok0 {
		return Outcome{Inconcl: "the reference run (fresh connection, silent server) did not resolve in time"}
	}
	got, ok1, err, inc := c12PingOnce(c.ServerPings, c.Earlier, iv)
	if inc != "" {
		return Outcome{Inconcl: inc}
	}
	desc := fmt.Sprintf("%d earlier exchanges, %d server PINGs acknowledged, then silence (PingInterval %v, no response timer)", c.Earlier, c.ServerPings, iv)
	if ok1 && err == nil {
		return fail("silence-success", "%s: the request succeeded although the server never answered it", desc)
	}
	if !ok1 && got <= base+2 {
		// a time bound alone is not evidence; a wedged client is caught by the deadlock evidence of the other lanes
		return Outcome{Inconcl: "the request had not resolved when the wait ended although the client had stopped pinging (machine too slow?)"}
	}
	// one PING may already be on its way when the silence begins, in either run
	if got > base+2 {
		return fail("silence-liveness", "%s: the client sent %d unanswered PINGs (resolved=%v) where a fresh connection gives up after %d: its liveness bound depends on the connection's history", desc, got, ok1, base)
	}
	return Outcome{NonTrivial: c.ServerPings > 0 || c.Earlier > 0, Classes: []string{fmt.Sprintf("unanswered=%d", got)}}
}

func c12PingGen(t *rapid.T) c12PingCase {
	return c12PingCase{ServerPings: rapid.SampledFrom([]int{0, 1, 5, 40, 200}).Draw(t, "server_pings"), Earlier: rapid.IntRange(0, 3).Draw(t, "earlier"),
		IntervalMs: rapid.SampledFrom([]int{8, 15, 30}).Draw(t, "interval")}
}

func TestC12(t *testing.T) {
	s := newSuite(t, "C12",
		"1..4 requests (bodies 0..70000) through RoundTrip with MaxResponseTime 250 ms to a scripted TLS server whose well-formed response stream (split header blocks, DATA chunked, shared HPACK entries) is recorded and then: delivered up to any octet (incl. inside a frame) or entirely; mutated frame-wise (duplicate, delete, swap, bit flip, lying length, type/flags/stream-id change); or extended with a scripted adversary at any frame position (RST_STREAM, GOAWAY, oversized frame, HPACK garbage, unsolicited PUSH_PROMISE, DATA on an idle stream, WINDOW_UPDATE overflow, invalid SETTINGS, unknown frame type, 300 or 700 PINGs); followed by silence, close or reset; or with the client's own writes failing from any octet, counted from the start or from the moment the server's stream is delivered (so that replies hit the failure); or with Client.Close() fired before the answers, after them, or concurrently with further RoundTrips. Oracle: every RoundTrip returns exactly once within MaxResponseTime plus a margin (a miss is reported with the client's goroutine dump); a success carries exactly the complete well-formed response an independent parser (x/net Framer + strict reference HPACK) finds on that stream in the delivered octets; nothing succeeds after Close without an answer; a follow-up batch on a fresh connection gets its own responses; after Close no loop of the client remains; the process survives (crash journal). Non-trivial = cut inside a frame, a mutation, an adversary, or Close racing requests; distinct by case hash.")
	defer s.finish()
	runLane(s, Lane[c12Case]{Name: "faults", Journal: true, Quick: 500, Thor: 30000, Gen: c12Gen, Run: c12Run})
	runLane(s, Lane[c12PingCase]{Name: "silence", Quick: 80, Thor: 4000, Gen: c12PingGen, Run: c12PingRun})
	runEnum(s, EnumLane[c12Case]{Name: "cuts", Journal: true, N: 3 * c12EnumCuts, At: c12EnumAt, Run: c12Run, QuickStride: 5, ThorStride: 1})
}
