package props

import (
	"fmt"
	"testing"

	"pgregory.net/rapid"

	"verif/harness/peer"
	"verif/harness/rawframe"
)

// C01 — server: every multiplexed request reaches the handler once, intact;
// reply intact.

type c01Case struct {
	Reqs  []peer.Req  `json:"reqs"`
	Resps []peer.Resp `json:"resps"`
	Sched []int       `json:"sched"` // picks among enabled actions (send next frame group of a stream / release a handler)
	Burst bool        `json:"burst,omitempty"`
	Win   uint32      `json:"win,omitempty"` // our SETTINGS_INITIAL_WINDOW_SIZE (0 = default)
	// the final window grant updates the connection window before (true) or after the stream windows
	ConnFirst bool `json:"conn_first,omitempty"`
}

// frame groups of one request, built lazily (header blocks are encoded when sent)
type c01Stream struct {
	req      peer.Req
	id       uint32
	stage    int // 0 headers not sent, 1 body, 2 trailers, 3 done
	data     [][]byte
	released bool
}

func c01Run(c c01Case) Outcome {
	resps := map[string]peer.Resp{}
	for i, r := range c.Reqs {
		rs := c.Resps[i]
		rs.Gate = true
		resps[r.Tag] = rs
	}
	h := peer.Start(peer.Config{MaxConcurrentStreams: 100, MaxRequestBodySize: 1 << 20, Responses: resps})
	defer h.Close()
	var set [][2]uint32
	if c.Win != 0 {
		set = append(set, [2]uint32{4, c.Win})
	}
	h.SendSettings(set)

	streams := make([]*c01Stream, len(c.Reqs))
	for i, r := range c.Reqs {
		streams[i] = &c01Stream{req: r}
	}
	nextID := uint32(1)
	sendGroup := func(s *c01Stream) {
		r := s.req
		switch s.stage {
		case 0:
			s.id = nextID
			nextID += 2
			h.OpenStream(s.id)
			block := h.EncodeBlock(r.SizeUpd, r.HeaderList())
			hasBody := r.BodyLen > 0 || len(r.Trailers) > 0 || len(r.Chunks) > 0 && r.DeclareCL
			if r.BodyLen == 0 && len(r.Trailers) == 0 {
				hasBody = false
			}
			dep := r.Dep
			if dep == s.id {
				dep = 0 // a stream must not depend on itself
			}
			for _, f := range peer.SplitBlock(s.id, block, r.Splits, !hasBody, r.PadHdr, r.Prio, dep, r.Excl, r.Weight) {
				_ = h.Write(f)
			}
			if !hasBody {
				s.stage = 3
				return
			}
			s.data = peer.DataFrames(s.id, peer.BodyFor(r.Tag, r.BodyLen), r.Chunks, r.PadData, len(r.Trailers) == 0)
			s.stage = 1
			if len(s.data) == 0 {
				s.stage = 2
			}
		case 1:
			_ = h.Write(s.data[0])
			s.data = s.data[1:]
			if len(s.data) == 0 {
				if len(r.Trailers) > 0 {
					s.stage = 2
				} else {
					s.stage = 3
				}
			}
		case 2:
			block := h.EncodeBlock(nil, r.Trailers)
			for _, f := range peer.SplitBlock(s.id, block, r.TrSplits, true, 0, false, 0, false, 0) {
				_ = h.Write(f)
			}
			s.stage = 3
		}
	}
	type action struct {
		send bool
		s    *c01Stream
	}
	stuck := func(where, d string) Outcome {
		return Outcome{Inconcl: "no quiescence " + where + ": " + d}
	}
	for k := 0; ; k++ {
		var en []action
		for _, s := range streams {
			if s.stage < 3 {
				en = append(en, action{true, s})
			}
			if !s.released {
				en = append(en, action{false, s})
			}
		}
		if len(en) == 0 {
			break
		}
		pick := 0
		if k < len(c.Sched) {
			pick = c.Sched[k]
		}
		a := en[pick%len(en)]
		if a.send {
			sendGroup(a.s)
		} else {
			a.s.released = true
			h.Release(a.s.req.Tag)
		}
		if !c.Burst {
			if ok, d := h.Quiesce(); !ok {
				return stuck(fmt.Sprintf("after action %d", k), d)
			}
		}
	}
	// final phase: one sufficient grant (every unfinished stream, and the
	// connection, get far more window than any response needs), after which
	// everything owed must arrive without further prompting. The connection
	// grant goes last unless ConnFirst, so several streams can become
	// sendable on the same WINDOW_UPDATE.
	stalled := ""
	for round := 0; round < 2; round++ {
		if ok, d := h.Quiesce(); !ok {
			return stuck("in the final phase", d)
		}
		got := peer.Assemble(h.EventsCopy())
		var need []uint32
		for _, s := range streams {
			if g := got[s.id]; g == nil || g.EndStream == 0 && !g.Rst {
				need = append(need, s.id)
			}
		}
		if len(need) == 0 {
			break
		}
		if round == 1 {
			stalled = fmt.Sprintf("streams %v still owe response frames although each was granted 2^24 octets of stream window and the connection 2^26", need)
			break
		}
		if c.ConnFirst {
			h.SendWindowUpdate(0, 1<<26)
		}
		for _, id := range need {
			h.SendWindowUpdate(id, 1<<24)
		}
		if !c.ConnFirst {
			h.SendWindowUpdate(0, 1<<26)
		}
	}
	evs := h.EventsCopy()
	seen := h.SeenCopy()
	got := peer.Assemble(evs)
	cls := []string{fmt.Sprintf("streams=%d", len(streams))}
	if c.Burst {
		cls = append(cls, "burst")
	}
	if ga := peer.GoAways(evs); len(ga) > 0 {
		return fail("goaway:"+peer.CodeName(ga[0].Code), "server sent GOAWAY(last=%d, %s, %q) on a connection carrying only well-formed requests", ga[0].Last, peer.CodeName(ga[0].Code), ga[0].Debug)
	}
	if v := h.FlowViolation(); v != "" {
		return fail("flow-control", "%s", v)
	}
	if stalled != "" && !peer.HasEOF(evs) {
		return fail("response-stalled-with-window", "%s", stalled)
	}
	for i, s := range streams {
		if msg := checkSeen(s.req, seen); msg != "" {
			return fail("request", "%s (stream %d)", msg, s.id)
		}
		if msg := checkGot(s.req.Tag, c.Resps[i], got[s.id]); msg != "" {
			sig := "response"
			if g := got[s.id]; g != nil && g.EndStream == 0 && !g.Rst && g.HdrErr == "" {
				sig = "response-no-end-stream"
			}
			return fail(sig, "%s (stream %d)", msg, s.id)
		}
	}
	if len(seen) != len(streams) {
		return fail("request", "handler ran %d times for %d requests", len(seen), len(streams))
	}
	if peer.HasEOF(evs) {
		return fail("eof", "server closed the connection")
	}
	for _, l := range h.Log.Lines() {
		if containsPanic(l) {
			return fail("panic", "server logged a panic: %s", l)
		}
	}
	nt := len(streams) >= 2
	for i, s := range streams {
		r := s.req
		if len(r.Splits) > 0 || r.PadHdr > 0 || r.Prio || len(r.PadData) > 0 || c.Resps[i].Mode != 0 {
			nt = true
		}
		if c.Resps[i].Mode != 0 {
			cls = append(cls, fmt.Sprintf("respmode=%d", c.Resps[i].Mode))
		}
		if len(r.Splits) > 0 {
			cls = append(cls, "split")
		}
		if len(r.Trailers) > 0 {
			cls = append(cls, "trailers")
		}
	}
	return Outcome{NonTrivial: nt, Classes: cls}
}

func containsPanic(l string) bool {
	for i := 0; i+8 <= len(l); i++ {
		if l[i:i+8] == "panicked" || l[i:i+8] == "panic in" {
			return true
		}
	}
	return false
}

func c01Gen(t *rapid.T) c01Case {
	n := rapid.IntRange(1, 6).Draw(t, "nreq")
	c := c01Case{Burst: rapid.IntRange(0, 3).Draw(t, "burst") == 0}
	maxBody := rapid.SampledFrom([]int{300, 3000, 40000}).Draw(t, "maxbody")
	maxResp := rapid.SampledFrom([]int{300, 3000, 70000}).Draw(t, "maxresp")
	for i := 0; i < n; i++ {
		c.Reqs = append(c.Reqs, genReq(t, fmt.Sprintf("t%d", i), maxBody))
		c.Resps = append(c.Resps, genResp(t, maxResp))
	}
	c.Sched = rapid.SliceOfN(rapid.IntRange(0, 23), 0, 60).Draw(t, "sched")
	if rapid.IntRange(0, 4).Draw(t, "win") == 0 {
		c.Win = rapid.SampledFrom([]uint32{1, 100, 16383, 1 << 20}).Draw(t, "winval")
	}
	c.ConnFirst = rapid.IntRange(0, 3).Draw(t, "connfirst") == 0
	return c
}

func TestC01(t *testing.T) {
	s := newSuite(t, "C01",
		"1..6 well-formed requests on one connection (methods, paths, authority, 0..12 regular fields incl. repeats/cookies/te, bodies 0..40000 with any DATA chunking, empty frames and padding, optional trailers) encoded by the in-harness RFC 7541 encoder with a per-field representation choice and references to entries inserted by earlier requests, header blocks cut into HEADERS+CONTINUATION at arbitrary octet offsets, PADDED/PRIORITY on HEADERS; frames of different streams interleaved and gated handlers released by a generated schedule, lock-step (quiescence after every action, decided by hook counters) or burst; responses buffered or streamed with declared/unknown/zero size and generated reader chunking. Oracle: handler ran exactly once per request and saw method, path, authority, field multiset (+trailers), cookies and body as sent; the peer got on the same stream the status, every field the handler set, the body, as HEADERS then DATA with END_STREAM exactly once; no RST_STREAM/GOAWAY/EOF; window ledger respected. Non-trivial = >=2 streams, or a split header block, padding, priority or a streamed response; distinct by case hash.",
		"request fields stay inside token/field-value grammar; singleton fields (content-type, user-agent, host) at most once; no 1xx/204/304; cookie pairs are k=v; RequestURI() (not the normalised Path()) is compared")
	defer s.finish()
	runLane(s, Lane[c01Case]{Name: "exchange", Journal: true, Quick: 2500, Thor: 400000, Gen: c01Gen, Run: c01Run})
}

var _ = rawframe.Data
