package props

import (
	"fmt"
	"testing"

	"pgregory.net/rapid"

	"verif/harness/peer"
	"verif/harness/rawframe"
	"verif/harness/refhpack"
	"verif/harness/speer"
)

// C11 — the client honours GOAWAY; only a never-processed request is called retryable.

type c11Case struct {
	N       int    `json:"n"`                // requests in flight when GOAWAY arrives
	Bodies  []bool `json:"bodies"`           // request i carries a body
	Partial []int  `json:"partial"`          // before GOAWAY: 0 nothing answered, 1 response HEADERS sent, 2 HEADERS and some DATA
	LastSel int    `json:"lastsel"`          // 0: last-stream-id 0; k in 1..N: id of the k-th stream; N+1: above all; N+2: 2^31-1
	Code    uint32 `json:"code"`             //
	Answer  []bool `json:"answer"`           // after GOAWAY: complete the response of stream i (if it is <= last)
	Order   []int  `json:"order"`            // order of those answers
	Drop    bool   `json:"drop"`             // close the connection after the answers (instead of leaving it open)
	Late    int    `json:"late"`             // requests issued after GOAWAY
	Refuse  int    `json:"refuse,omitempty"` // >0: RST_STREAM(REFUSED_STREAM) the k-th stream before GOAWAY
	Early   bool   `json:"early,omitempty"`  // the late requests are issued without waiting for quiescence after GOAWAY
	// per request with a body: 0 buffered 100+i octets, 1 SetBodyStream (declared) 100+i octets, 2 SetBodyStream of
	// unknown length and 70000 octets, 3 buffered 70000 octets; the last two are still waiting for window when the
	// GOAWAY / RST_STREAM / early answer arrives (the scripted server grants none); 4 (last request only): streamed
	// from a reader that blocks until the first connection is gone
	BodyKind []int `json:"bodykind,omitempty"`
	// GrantDrop: with Drop, WINDOW_UPDATEs for everything still pending are written immediately before the disconnect
	GrantDrop bool `json:"grantdrop,omitempty"`
}

func c11Run(c c11Case) Outcome {
	env, err := speer.NewEnv(clientOpts())
	if err != nil {
		return Outcome{Inconcl: "cannot set the client up: " + err.Error()}
	}
	defer env.Close()
	c0 := env.Conn(0)
	if c0 == nil {
		return Outcome{Inconcl: "no connection"}
	}
	for i := range c.BodyKind {
		if c.BodyKind[i] == 4 && i == c.N-1 && i < len(c.Bodies) && c.Bodies[i] {
			// like TCP: what the client writes after our FIN is accepted by its socket, so its own farewell GOAWAY
			// does not fail and the write that finally fails is one on the connection the client itself has closed
			c0.CliRaw.WritesSurvivePeerClose(true)
		}
	}
	q := func(where string) *Outcome {
		if ok, d := env.Quiesce(); !ok {
			return &Outcome{Inconcl: "no quiescence " + where + ": " + d}
		}
		return nil
	}
	calls := map[string]*speer.Call{}
	gated := false
	wantBody := map[string][]byte{}
	var tags []string
	for i := 0; i < c.N; i++ {
		tag := fmt.Sprintf("t%d", i)
		r := speer.ReqSpec{Tag: tag, Method: "POST", Path: "/" + tag}
		if c.Bodies[i] {
			r.BodyLen = 100 + i
			if i < len(c.BodyKind) {
				switch c.BodyKind[i] {
				case 1:
					r.Mode = 1
				case 2:
					r.BodyLen, r.Mode, r.Chunks = 70000, 2, []int{5000}
				case 3:
					r.BodyLen = 70000
				case 4:
					// the last request only: its body comes from a reader that blocks until the first connection
					// is gone, so the client's write loop sits in Read with the HEADERS out and the body to come
					if i == c.N-1 {
						r.BodyLen, r.Mode, r.Gate = 3000, 2, true
						gated = true
					}
				}
			}
		}
		if r.BodyLen > 0 {
			wantBody[tag] = peer.BodyFor(tag, r.BodyLen)
		} else {
			wantBody[tag] = nil
		}
		calls[tag] = env.Do(r)
		tags = append(tags, tag)
		// one at a time so that stream ids follow the tags
		if o := q("while sending " + tag); o != nil {
			return *o
		}
	}
	streamsOf := func(sc *speer.SConn) map[string][]uint32 {
		m := map[string][]uint32{}
		for _, e := range sc.EventsCopy() {
			if e.Kind == "headers" {
				for _, f := range e.Fields {
					if f.Name == ":path" {
						t := peer.TagOfURI(f.Value)
						m[t] = append(m[t], e.Stream)
					}
				}
			}
		}
		return m
	}
	first := streamsOf(c0)
	idOf := map[string]uint32{}
	var maxID uint32
	for _, t := range tags {
		if len(first[t]) != 1 {
			return Outcome{Inconcl: fmt.Sprintf("request %s reached the server %d times before GOAWAY", t, len(first[t]))}
		}
		idOf[t] = first[t][0]
		if idOf[t] > maxID {
			maxID = idOf[t]
		}
	}
	respHeaders := func(sc *speer.SConn, id uint32, tag string, end bool) {
		blk := sc.EncodeBlock(nil, []peer.FieldSpec{{F: refhpack.Field{Name: ":status", Value: "200"}, R: refhpack.Rep{Kind: 0}}, {F: refhpack.Field{Name: "x-tag", Value: tag}, R: refhpack.Rep{Kind: 1}}})
		_ = sc.Write(peer.SplitBlock(id, blk, nil, end, 0, false, 0, false, 0)[0])
	}
	refused := ""
	if c.Refuse > 0 {
		refused = tags[(c.Refuse-1)%c.N]
		_ = c0.Write(rawframe.Append(nil, rawframe.RstStream, 0, idOf[refused], rawframe.U32(7)))
	}
	for i, t := range tags {
		if t == refused {
			continue
		}
		if c.Partial[i] >= 1 {
			respHeaders(c0, idOf[t], t, false)
		}
		if c.Partial[i] >= 2 {
			_ = c0.Write(rawframe.Append(nil, rawframe.Data, 0, idOf[t], peer.BodyFor(t, 10)[:5]))
		}
	}
	if o := q("before GOAWAY"); o != nil {
		return *o
	}
	// a refused request may already have been sent again on this connection:
	// the stream it is on now is the one the GOAWAY is about
	var refusedID uint32
	if refused != "" {
		refusedID = idOf[refused]
	}
	first = streamsOf(c0)
	for _, t := range tags {
		if ids := first[t]; len(ids) > 0 {
			idOf[t] = ids[len(ids)-1]
			if idOf[t] > maxID {
				maxID = idOf[t]
			}
		}
	}
	stillRefused := refused != "" && idOf[refused] == refusedID
	var last uint32
	switch {
	case c.LastSel == 0:
		last = 0
	case c.LastSel <= c.N:
		last = idOf[tags[c.LastSel-1]]
	case c.LastSel == c.N+1:
		last = maxID + 2
	default:
		last = 1<<31 - 1
	}
	_ = c0.Write(rawframe.Append(nil, rawframe.GoAway, 0, 0, append(rawframe.U32(last), rawframe.U32(c.Code)...)))
	lateTags := []string{}
	issueLate := func() {
		for i := 0; i < c.Late; i++ {
			tag := fmt.Sprintf("late%d", i)
			calls[tag] = env.Do(speer.ReqSpec{Tag: tag, Method: "GET", Path: "/" + tag})
			lateTags = append(lateTags, tag)
		}
	}
	if c.Early {
		issueLate()
	}
	if o := q("after GOAWAY"); o != nil {
		return *o
	}
	if !c.Early {
		issueLate()
		if o := q("after the late requests"); o != nil {
			return *o
		}
	}
	// serve whatever landed on later connections
	granted := map[string]bool{}
	serveOthers := func() *Outcome {
		for round := 0; round < 6; round++ {
			did := false
			for _, sc := range env.ConnsCopy()[1:] {
				got := peer.Assemble(sc.EventsCopy())
				for t, ids := range streamsOf(sc) {
					for _, id := range ids {
						g := got[id]
						// a later connection is a well-behaved server: a re-sent request whose body is larger than
						// the initial windows gets the window it needs (the first connection grants none on purpose)
						if key := fmt.Sprintf("%d/%d", sc.Index, id); (g == nil || g.EndStream == 0) && !granted[key] {
							granted[key] = true
							sc.SendWindowUpdate(0, 1<<20)
							sc.SendWindowUpdate(id, 1<<20)
							did = true
						}
						if g != nil && g.EndStream > 0 && !sc.Answered(id) {
							// a request the client sends again must be the request it was given: same body
							if want, ok := wantBody[t]; ok && string(g.Body) != string(want) {
								return &Outcome{Fail: fmt.Sprintf("request %s was sent again on connection %d (stream %d) with a body of %d octets; the caller gave it %d octets (first connection: streams %v)", t, sc.Index, id, len(g.Body), len(want), streamsOf(c0)[t]), Sig: "resent-body"}
							}
							sc.MarkAnswered(id)
							respHeaders(sc, id, t+"@"+fmt.Sprint(sc.Index), false)
							_ = sc.Write(rawframe.Append(nil, rawframe.Data, rawframe.FlagEndStream, id, peer.BodyFor(t, 10)))
							sc.StreamDone(id)
							did = true
						}
					}
				}
			}
			if o := q("while serving the later connections"); o != nil {
				return o
			}
			if !did {
				break
			}
		}
		return nil
	}
	if o := serveOthers(); o != nil {
		return *o
	}
	desc := fmt.Sprintf("GOAWAY(last-stream-id=%d, %s) with streams %v in flight", last, peer.CodeName(c.Code), idOf)
	// (c) streams above last must be resolved by now (not while the write loop of the connection sits in the
	// caller's own blocking body reader: a copy queued behind it cannot be dealt with before the reader returns;
	// the final "never resolved" check still applies after the release)
	for _, t := range tags {
		if idOf[t] > last && !calls[t].Finished() && !gated {
			return fail("above-last-hangs", "%s: request %s on stream %d (above last-stream-id) has not been resolved although the client is quiescent and every other connection has been served", desc, t, idOf[t])
		}
	}
	// answers on the first connection, in the generated order
	answered := map[string]bool{}
	for _, k := range c.Order {
		i := k % c.N
		t := tags[i]
		if !c.Answer[i] || answered[t] || idOf[t] > last || (t == refused && stillRefused) || t == refused {
			continue
		}
		answered[t] = true
		if c.Partial[i] == 0 {
			respHeaders(c0, idOf[t], t, false)
		}
		body := peer.BodyFor(t, 10)
		if c.Partial[i] >= 2 {
			body = body[5:]
		}
		_ = c0.Write(rawframe.Append(nil, rawframe.Data, rawframe.FlagEndStream, idOf[t], body))
		c0.StreamDone(idOf[t])
		if o := q("after answering " + t); o != nil {
			return *o
		}
	}
	if c.Drop && c.GrantDrop {
		// window for every upload that is still pending, and the disconnect right behind it: the client's write loop
		// wakes up to send DATA on a connection its read loop is closing at that very moment (a write that fails
		// then must not be taken for "nothing of this request was ever sent")
		_ = c0.Write(rawframe.Append(nil, rawframe.WindowUpdate, 0, 0, rawframe.U32(1<<20)))
		for _, t := range tags {
			if id := idOf[t]; id != 0 {
				_ = c0.Write(rawframe.Append(nil, rawframe.WindowUpdate, 0, id, rawframe.U32(1<<20)))
			}
		}
	}
	if c.Drop {
		_ = c0.SrvRaw.Close()
	}
	if o := q("after the answers"); o != nil {
		return *o
	}
	if o := serveOthers(); o != nil {
		return *o
	}
	// finally the first connection goes away: everything must be resolved then
	_ = c0.SrvRaw.Close()
	if o := q("after closing the first connection"); o != nil {
		return *o
	}
	if gated {
		// the slow body source delivers now, on a connection that is gone: the write that fails says nothing
		// about whether the request's HEADERS were sent (they were)
		env.ReleaseBodies()
		if o := q("after the gated body was released"); o != nil {
			return *o
		}
	}
	if o := serveOthers(); o != nil {
		return *o
	}
	// ---- judge
	all := map[string][]string{} // tag -> where its HEADERS were seen
	for _, sc := range env.ConnsCopy() {
		for t, ids := range streamsOf(sc) {
			for _, id := range ids {
				all[t] = append(all[t], fmt.Sprintf("conn%d/stream%d", sc.Index, id))
			}
		}
	}
	// (b) no new stream on the first connection once the client has seen the
	// GOAWAY. Requests issued right behind the GOAWAY (Early) may race it: if
	// one goes out on the first connection it is simply a stream above
	// last-stream-id, and is judged as such below.
	after := streamsOf(c0)
	for t, ids := range after {
		if len(ids) > len(first[t]) {
			if !c.Early {
				return fail("stream-after-goaway", "%s: request %s was opened on the connection after it had received GOAWAY (%v)", desc, t, all[t])
			}
			if _, known := idOf[t]; !known {
				idOf[t] = ids[0]
			}
		}
	}
	for _, t := range append(append([]string{}, tags...), lateTags...) {
		call := calls[t]
		if !call.Finished() {
			return fail("hangs", "%s: request %s never resolved (seen at %v) although every connection has been served or closed", desc, t, all[t])
		}
		if call.Returns.Load() != 1 {
			return fail("resolved-twice", "request %s resolved %d times", t, call.Returns.Load())
		}
		disclaimed := false
		onFirst := false
		if id, ok := idOf[t]; ok {
			onFirst = true
			disclaimed = id > last || (t == refused && stillRefused)
		}
		// every copy but the last must have been disclaimed by the connection it went out on
		sends := all[t]
		for i := 0; i+1 < len(sends); i++ {
			var ci int
			var sid uint32
			fmt.Sscanf(sends[i], "conn%d/stream%d", &ci, &sid)
			if ci != 0 || !(sid > last || sid == refusedID && refused == t) {
				return fail("resent-processed-request", "%s: request %s was sent %d times (%v); copy %d was never disclaimed by its connection: a request the server may have processed must not be replayed", desc, t, len(sends), sends, i+1)
			}
		}
		if call.Retry && onFirst && !disclaimed {
			return fail("retryable-processed-request", "%s: request %s (stream %d, at or below last-stream-id) was reported retryable (err %q)", desc, t, idOf[t], call.Err)
		}
		switch {
		case onFirst && !disclaimed && answered[t]:
			if call.Err != nil {
				return fail("answered-request-failed", "%s: request %s on stream %d (<= last-stream-id) was answered completely after the GOAWAY, but its caller got error %q", desc, t, idOf[t], call.Err)
			}
			if string(call.Body) != string(peer.BodyFor(t, 10)) || !hasTag(call, t) {
				return fail("wrong-response", "%s: request %s got body %q fields %v", desc, t, headStr(call.Body), call.Fields)
			}
		case onFirst && !disclaimed:
			if call.Err == nil {
				return fail("unanswered-request-succeeded", "%s: request %s (stream %d) was never answered completely, yet its caller got a response (status %d, body %q)", desc, t, idOf[t], call.Status, headStr(call.Body))
			}
		case onFirst && disclaimed:
			if call.Err == nil {
				// may only succeed through a copy re-sent on another connection
				if len(all[t]) < 2 || !hasTagPrefix(call, t+"@") {
					return fail("disclaimed-request-succeeded", "%s: request %s (stream %d, disclaimed by the server) was reported successful from the first connection (fields %v)", desc, t, idOf[t], call.Fields)
				}
			}
		default: // late request
			if call.Err == nil && !hasTagPrefix(call, t+"@") {
				return fail("wrong-response", "late request %s got fields %v", t, call.Fields)
			}
			if call.Err != nil && len(all[t]) >= 1 {
				// it reached a later connection, which answered it
				return fail("late-request-failed", "%s: request %s issued after the GOAWAY reached %v and was answered, but its caller got error %q", desc, t, all[t], call.Err)
			}
		}
	}
	interesting := last > 0 && last < maxID
	cls := []string{fmt.Sprintf("lastsel=%d/%d", c.LastSel, c.N)}
	if interesting {
		cls = append(cls, "last-in-the-middle")
	}
	return Outcome{NonTrivial: interesting || c.Refuse > 0, Classes: cls}
}

func hasTag(c *speer.Call, v string) bool {
	for _, f := range c.Fields {
		if f.Name == "x-tag" && f.Value == v {
			return true
		}
	}
	return false
}

func hasTagPrefix(c *speer.Call, p string) bool {
	for _, f := range c.Fields {
		if f.Name == "x-tag" && len(f.Value) >= len(p) && f.Value[:len(p)] == p {
			return true
		}
	}
	return false
}

func c11Gen(t *rapid.T) c11Case {
	n := rapid.IntRange(1, 5).Draw(t, "n")
	c := c11Case{N: n, LastSel: rapid.IntRange(0, n+2).Draw(t, "lastsel"), Code: uint32(rapid.SampledFrom([]int{0, 0, 1, 2, 11}).Draw(t, "code")),
		Drop: rapid.Bool().Draw(t, "drop"), Late: rapid.IntRange(0, 2).Draw(t, "late"), Early: rapid.Bool().Draw(t, "early")}
	for i := 0; i < n; i++ {
		c.Bodies = append(c.Bodies, rapid.Bool().Draw(t, "body"))
		c.BodyKind = append(c.BodyKind, rapid.SampledFrom([]int{0, 0, 1, 2, 2, 3, 4, 4}).Draw(t, "bodykind"))
		c.Partial = append(c.Partial, rapid.IntRange(0, 2).Draw(t, "partial"))
		c.Answer = append(c.Answer, rapid.IntRange(0, 3).Draw(t, "answer") != 0)
	}
	c.GrantDrop = rapid.Bool().Draw(t, "grantdrop")
	c.Order = rapid.SliceOfN(rapid.IntRange(0, 4), 0, 8).Draw(t, "order")
	if rapid.IntRange(0, 4).Draw(t, "refuse") == 0 {
		c.Refuse = rapid.IntRange(1, n).Draw(t, "refusek")
	}
	return c
}

func TestC11(t *testing.T) {
	s := newSuite(t, "C11",
		"1..5 requests in flight on one connection (without a body, or with a buffered or streamed one, small or larger than the window and therefore still pending; some with response HEADERS or HEADERS+partial DATA already delivered; optionally one refused with RST_STREAM(REFUSED_STREAM)), then GOAWAY with last-stream-id from {0, the id of any in-flight stream, above all, 2^31-1} and a generated code; afterwards the scripted server completes a generated subset of the streams at or below last-stream-id in a generated order and then keeps the connection or drops it; 0..2 further requests are issued right behind the GOAWAY or after quiescence and land on later scripted connections, which answer everything; finally the first connection is closed. Oracle per request tag: its HEADERS are seen at most once over all connections unless the first connection disclaimed it (id above last-stream-id, or REFUSED_STREAM); no stream is opened on a connection after its GOAWAY; a disclaimed request is resolved at quiescence (error, or the answer a later connection gave its re-sent copy) and is never reported successful from the first connection; retry==true only for requests the server cannot have processed; requests at or below last-stream-id that were answered completely succeed with exactly their response, unanswered ones fail; every RoundTrip returns exactly once. Non-trivial = 0 < last-stream-id < highest in-flight id, or a refused stream; distinct by case hash.")
	defer s.finish()
	runLane(s, Lane[c11Case]{Name: "goaway", Journal: true, Quick: 500, Thor: 40000, Gen: c11Gen, Run: c11Run})
}
