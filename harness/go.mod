module verif/harness

go 1.25.0

require (
	github.com/dgrr/http2 v0.0.0
	github.com/valyala/fasthttp v1.72.0
	golang.org/x/net v0.56.0
	pgregory.net/rapid v1.3.0
)

require (
	github.com/andybalholm/brotli v1.2.1 // indirect
	github.com/klauspost/compress v1.18.6 // indirect
	github.com/valyala/bytebufferpool v1.0.0 // indirect
	github.com/valyala/fastrand v1.1.0 // indirect
	golang.org/x/text v0.38.0 // indirect
)

replace github.com/dgrr/http2 => /repo
