// Package pooltrack observes every pooled Get/Put of the library (hook
// VerifPoolObserver) and detects double releases and objects with two owners.
package pooltrack

import (
	"fmt"
	"runtime"
	"sync"

	"github.com/dgrr/http2"
)

// PoisonMark is written into frames when they go back to their pool (see
// poison): whoever still reads a released frame sees it.
const PoisonMark = "\x7fRELEASED-TO-POOL\x7f"

// poison overwrites the payload fields of a frame that is being released.
// Every acquisition resets the frame first, so a correct user never sees this.
func poison(obj interface{}) {
	switch x := obj.(type) {
	case *http2.GoAway:
		x.SetStream(0x7ffffff1)
		x.SetCode(http2.ErrorCode(0x70150))
		x.SetData([]byte(PoisonMark))
	case *http2.RstStream:
		x.SetCode(http2.ErrorCode(0x70150))
	case *http2.Data:
		x.SetData([]byte(PoisonMark))
	case *http2.WindowUpdate:
		x.SetIncrement(0x70150)
	}
}

var KindNames = []string{"frame", "frameHeader", "headerField", "stream", "requestCtx", "clientCtx", "hpack"}

type state struct {
	owned    bool
	lastPut  string
	lastGet  string
	inHandle bool
}

type Tracker struct {
	mu         sync.Mutex
	healing    bool
	poisoned   []interface{}          // objects that sit in their pool twice
	objs       map[interface{}]*state // strong references: the GC cannot recycle an address
	Violations []string
	Gets, Puts [8]int64
	stacks     bool
}

var (
	active   *Tracker
	activeMu sync.Mutex
)

// Start installs a fresh tracker (stacks: record call sites, slower).
func Start(stacks bool) *Tracker {
	t := &Tracker{objs: map[interface{}]*state{}, stacks: stacks}
	f := func(kind int, get bool, obj interface{}) { t.observe(kind, get, obj) }
	activeMu.Lock()
	active = t
	http2.VerifPoolObserver.Store(&f)
	activeMu.Unlock()
	return t
}

// Stop removes the observer.
func Stop() {
	activeMu.Lock()
	http2.VerifPoolObserver.Store(nil)
	active = nil
	activeMu.Unlock()
}

func site() string {
	pc := make([]uintptr, 8)
	n := runtime.Callers(4, pc)
	fr := runtime.CallersFrames(pc[:n])
	s := ""
	for i := 0; i < 5; i++ {
		f, more := fr.Next()
		s += fmt.Sprintf("%s:%d ", trimFn(f.Function), f.Line)
		if !more {
			break
		}
	}
	return s
}

func trimFn(s string) string {
	for i := len(s) - 1; i >= 0; i-- {
		if s[i] == '/' {
			return s[i+1:]
		}
	}
	return s
}

func isNil(obj interface{}) bool { return obj == nil }

func (t *Tracker) observe(kind int, get bool, obj interface{}) {
	if isNil(obj) {
		return
	}
	var where string
	if t.stacks {
		where = site()
	}
	t.mu.Lock()
	defer t.mu.Unlock()
	st := t.objs[obj]
	if t.healing {
		return
	}
	if get {
		t.Gets[kind]++
		if st == nil {
			t.objs[obj] = &state{owned: true, lastGet: where}
			return
		}
		if st.owned {
			t.Violations = append(t.Violations, fmt.Sprintf("two owners: %s %p handed out by its pool while a previous owner still holds it (previous get: %s; this get: %s)", KindNames[kind], obj, st.lastGet, where))
		}
		st.owned = true
		st.lastGet = where
		return
	}
	t.Puts[kind]++
	if kind == http2.VerifPoolFrame {
		poison(obj)
	}
	if st == nil {
		// first seen at Put: built with a literal by the caller
		t.objs[obj] = &state{owned: false, lastPut: where}
		return
	}
	if !st.owned {
		t.Violations = append(t.Violations, fmt.Sprintf("double release: %s %p returned to its pool twice (first: %s; second: %s)", KindNames[kind], obj, st.lastPut, where))
		t.poisoned = append(t.poisoned, obj)
	}
	if st.inHandle {
		t.Violations = append(t.Violations, fmt.Sprintf("recycled in use: %s %p returned to its pool while a handler is still using it (%s)", KindNames[kind], obj, where))
	}
	st.owned = false
	st.lastPut = where
}

// InHandler marks a request context as being used by a handler (or not).
func (t *Tracker) InHandler(obj interface{}, in bool) {
	t.mu.Lock()
	st := t.objs[obj]
	if st == nil {
		st = &state{owned: true}
		t.objs[obj] = st
	}
	if in && !st.owned {
		t.Violations = append(t.Violations, fmt.Sprintf("handler entered with a request context %p that sits in the pool", obj))
	}
	st.inHandle = in
	t.mu.Unlock()
}

// Take returns and clears the violations seen so far.
func (t *Tracker) Take() []string {
	t.mu.Lock()
	v := t.Violations
	t.Violations = nil
	// The map holds a strong reference to every pooled object it has seen (so that an address cannot be recycled
	// under it). sync.Pool drops its contents at every second GC, so over a long run the map would keep every
	// object ever pooled alive: 1 GB a minute in a thorough C17 shard. Objects that sit in their pool are forgotten
	// once the map is large; an object seen again after that starts a new history.
	if len(t.objs) > 4000 {
		for o, st := range t.objs {
			if !st.owned && !st.inHandle {
				delete(t.objs, o)
			}
		}
	}
	t.mu.Unlock()
	return v
}

// Forget drops every object the tracker knows. For lanes that run one connection at a time: between two cases nothing
// of the previous connection is alive, but objects that were never released (the request context of a handler that
// outlived its connection is deliberately not recycled) would otherwise stay referenced from here for ever.
func (t *Tracker) Forget() {
	t.mu.Lock()
	t.objs = map[interface{}]*state{}
	t.poisoned = nil
	t.mu.Unlock()
}

// Heal removes the duplicates a double release left in the (process-global)
// frame and frame-header pools, so that one finding does not poison every
// later case in the same process. Single-goroutine use only.
func (t *Tracker) Heal() {
	t.mu.Lock()
	bad := t.poisoned
	t.poisoned = nil
	t.healing = true
	t.mu.Unlock()
	defer func() { t.mu.Lock(); t.healing = false; t.mu.Unlock() }()
	for _, obj := range bad {
		switch x := obj.(type) {
		case http2.Frame:
			seen := map[http2.Frame]int{}
			for i := 0; i < 4096 && seen[x] < 2; i++ {
				seen[http2.AcquireFrame(x.Type())]++
			}
			for f := range seen {
				http2.ReleaseFrame(f)
			}
		case *http2.FrameHeader:
			seen := map[*http2.FrameHeader]int{}
			for i := 0; i < 4096 && seen[x] < 2; i++ {
				seen[http2.AcquireFrameHeader()]++
			}
			for f := range seen {
				f.SetBody(http2.AcquireFrame(http2.FramePing))
				http2.ReleaseFrameHeader(f)
			}
		}
	}
}
