// Package speer is the server-role scripted peer that drives the client under
// test: an in-memory TLS endpoint per dialled connection, raw frame writing, an
// x/net based reader with strict HPACK decoding of what the client emits,
// flow-control ledgers, and a quiescence test built on the verif hook counters.
package speer

import (
	"crypto/ecdsa"
	"crypto/elliptic"
	"crypto/rand"
	"crypto/tls"
	"crypto/x509"
	"crypto/x509/pkix"
	"fmt"
	"io"
	"math/big"
	"net"
	"runtime"
	"strings"
	"sync"
	"sync/atomic"
	"time"

	"github.com/dgrr/http2"
	"github.com/valyala/fasthttp"
	xh2 "golang.org/x/net/http2"
	"golang.org/x/net/http2/hpack"

	"verif/harness/memconn"
	"verif/harness/peer"
	"verif/harness/rawframe"
	"verif/harness/refhpack"
)

var (
	certOnce sync.Once
	tlsCert  tls.Certificate
)

func serverTLS() *tls.Config {
	certOnce.Do(func() {
		key, err := ecdsa.GenerateKey(elliptic.P256(), rand.Reader)
		if err != nil {
			panic(err)
		}
		tmpl := &x509.Certificate{SerialNumber: big.NewInt(1), Subject: pkix.Name{CommonName: "example.com"}, DNSNames: []string{"example.com"},
			NotBefore: time.Now().Add(-time.Hour), NotAfter: time.Now().Add(24 * time.Hour), KeyUsage: x509.KeyUsageDigitalSignature, ExtKeyUsage: []x509.ExtKeyUsage{x509.ExtKeyUsageServerAuth}}
		der, err := x509.CreateCertificate(rand.Reader, tmpl, tmpl, &key.PublicKey, key)
		if err != nil {
			panic(err)
		}
		tlsCert = tls.Certificate{Certificate: [][]byte{der}, PrivateKey: key}
	})
	return &tls.Config{Certificates: []tls.Certificate{tlsCert}, NextProtos: []string{"h2"}, MinVersion: tls.VersionTLS12}
}

type tblChange struct {
	has        bool
	final, min uint32
}

// ConnPlan says how the next accepted connection behaves at start-up.
type ConnPlan struct {
	Settings [][2]uint32 // our initial SETTINGS
	NoALPN   bool
	Silent   bool // never send SETTINGS (handshake of the client blocks)
	// BigRecords turns TLS dynamic record sizing off: what we write reaches the
	// client in 16 KiB records from the first octet on, so its read buffer can
	// hold hundreds of small frames at once
	BigRecords bool
}

// SConn is the server side of one connection the client dialled.
type SConn struct {
	Index  int
	CliRaw *memconn.Conn // the client's end (under its TLS)
	SrvRaw *memconn.Conn // our end (under our TLS)
	TLS    *tls.Conn
	Stats  *http2.VerifClientStats

	mu     sync.Mutex
	Events []peer.Event
	Dec    *refhpack.Decoder
	xdec   *hpack.Decoder
	Enc    *refhpack.Encoder

	// what we allow the client to send
	ConnWin     int64
	InitWin     int64
	StreamWin   map[uint32]int64
	MaxFrame    int64 // our SETTINGS_MAX_FRAME_SIZE, in force once acknowledged
	pendingMF   []int64
	pendingWin  []int64 // INITIAL_WINDOW_SIZE of each unacknowledged SETTINGS frame (-1: not named)
	winAcked    int64
	winAckedSet bool
	pendingTbl  []tblChange
	FCViol      string
	MaxConc     int64 // our SETTINGS_MAX_CONCURRENT_STREAMS as acknowledged (-1 unlimited)
	pendingMC   []int64
	open        map[uint32]bool
	answered    map[uint32]bool
	MaxOpen     int
	ConcViol    string
	Acks        int
	SetSent     int

	ready      chan struct{}
	readerGone atomic.Bool
	// NoPingAck: from now on the client's PINGs are recorded but not acknowledged (a server gone silent)
	NoPingAck atomic.Bool
	hsErr     error
	wmu       sync.Mutex
	wrote     []Wrote
}

// Env owns the client under test and every connection it dials.
type Env struct {
	HC *fasthttp.HostClient
	CL *http2.Client

	mu    sync.Mutex
	Conns []*SConn
	Plan  []ConnPlan // consumed one per dial; the last one repeats
	dials int

	started, returned atomic.Int64
	QuiesceTimeout    time.Duration
	// body readers blocked at an unreleased gate (each keeps one write loop busy inside Read)
	gateParked atomic.Int64
	gateMu     sync.Mutex
	gate       chan struct{}
	// timers: the client runs with MaxResponseTime > 0, so a timer goroutine may be between resolving a
	// request and resetting its stream ((*Ctx).fireTimeout); quiescence then also needs no such goroutine
	timers bool
}

// NewEnv configures a HostClient for HTTP/2 over in-memory TLS connections to
// scripted servers. ConfigureClient dials the first connection at once.
func NewEnv(opts http2.ClientOpts, plan ...ConnPlan) (*Env, error) {
	if len(plan) == 0 {
		plan = []ConnPlan{{}}
	}
	e := &Env{Plan: plan, QuiesceTimeout: 10 * time.Second, timers: opts.MaxResponseTime > 0}
	e.HC = &fasthttp.HostClient{Addr: "example.com:443", IsTLS: true, TLSConfig: &tls.Config{InsecureSkipVerify: true, ServerName: "example.com"},
		Dial: e.dial, MaxIdemponentCallAttempts: 1}
	if err := http2.ConfigureClient(e.HC, opts); err != nil {
		return e, err
	}
	e.CL = http2.ClientFrom(e.HC)
	return e, nil
}

// DialBare dials one connection through http2.Dialer (not through ConfigureClient / a HostClient) to a scripted
// server, with the given connection options. The caller drives it with Conn.Write(&http2.Ctx{...}).
func DialBare(opts http2.ConnOpts, plan ...ConnPlan) (*http2.Conn, *Env, error) {
	if len(plan) == 0 {
		plan = []ConnPlan{{}}
	}
	e := &Env{Plan: plan, QuiesceTimeout: 10 * time.Second}
	d := &http2.Dialer{Addr: "example.com:443", TLSConfig: &tls.Config{InsecureSkipVerify: true, ServerName: "example.com"}, NetDial: e.dial, PingInterval: opts.PingInterval}
	c, err := d.Dial(opts)
	return c, e, err
}

func (e *Env) dial(addr string) (net.Conn, error) {
	cli, srv := memconn.Pair()
	e.mu.Lock()
	p := e.Plan[len(e.Plan)-1]
	if e.dials < len(e.Plan) {
		p = e.Plan[e.dials]
	}
	e.dials++
	c := &SConn{Index: len(e.Conns), CliRaw: cli, SrvRaw: srv, Dec: refhpack.NewDecoder(4096), xdec: hpack.NewDecoder(4096, nil), Enc: refhpack.NewEncoder(4096),
		ConnWin: 65535, InitWin: 65535, StreamWin: map[uint32]int64{}, MaxFrame: 16384, MaxConc: -1, open: map[uint32]bool{}, ready: make(chan struct{})}
	c.Stats = http2.VerifClientStatsFor(cli)
	e.Conns = append(e.Conns, c)
	e.mu.Unlock()
	cfg := serverTLS()
	if p.NoALPN {
		cfg.NextProtos = []string{"http/1.1"}
	}
	cfg.DynamicRecordSizingDisabled = p.BigRecords
	c.TLS = tls.Server(srv, cfg)
	go c.serve(p)
	return cli, nil
}

func (c *SConn) serve(p ConnPlan) {
	defer c.readerGone.Store(true)
	if err := c.TLS.Handshake(); err != nil {
		c.hsErr = err
		close(c.ready)
		return
	}
	pre := make([]byte, len(peer.Preface))
	if _, err := io.ReadFull(c.TLS, pre); err != nil || string(pre) != peer.Preface {
		c.hsErr = fmt.Errorf("bad preface: %v", err)
		close(c.ready)
		return
	}
	if !p.Silent {
		c.SendSettings(p.Settings)
	}
	close(c.ready)
	c.readLoop()
}

// Close tears everything down.
func (e *Env) Close() {
	e.ReleaseBodies() // a body reader left at its gate would keep a write loop, and its caller, alive for ever
	if e.CL != nil {
		_ = e.CL.Close()
	}
	e.mu.Lock()
	conns := append([]*SConn(nil), e.Conns...)
	e.mu.Unlock()
	for _, c := range conns {
		_ = c.SrvRaw.Close()
		_ = c.CliRaw.Close()
		http2.VerifForget(c.CliRaw)
	}
}

func (e *Env) ConnsCopy() []*SConn {
	e.mu.Lock()
	defer e.mu.Unlock()
	return append([]*SConn(nil), e.Conns...)
}

// Conn waits for connection i to exist and be past its handshake.
func (e *Env) Conn(i int) *SConn {
	deadline := time.Now().Add(5 * time.Second)
	for {
		e.mu.Lock()
		var c *SConn
		if i < len(e.Conns) {
			c = e.Conns[i]
		}
		e.mu.Unlock()
		if c != nil {
			select {
			case <-c.ready:
				return c
			case <-time.After(5 * time.Second):
				return c
			}
		}
		if time.Now().After(deadline) {
			return nil
		}
		time.Sleep(50 * time.Microsecond)
	}
}

// ---- writing ----------------------------------------------------------------

// Wrote is one frame header this side has written.
type Wrote struct {
	Type, Flags byte
	Stream      uint32
	Len         int
}

func (c *SConn) WroteLog() []Wrote {
	c.wmu.Lock()
	defer c.wmu.Unlock()
	return append([]Wrote(nil), c.wrote...)
}

func (c *SConn) Write(b []byte) error {
	c.wmu.Lock()
	defer c.wmu.Unlock()
	for rest := b; len(rest) >= 9 && len(c.wrote) < 4000; {
		h, _ := rawframe.ParseHeader(rest)
		c.wrote = append(c.wrote, Wrote{h.Type, h.Flags, h.Stream, h.Length})
		if len(rest) < 9+h.Length {
			break
		}
		rest = rest[9+h.Length:]
	}
	_, err := c.TLS.Write(b)
	return err
}

// SendSettings writes SETTINGS and records what the client will be held to
// once it has acknowledged them.
func (c *SConn) SendSettings(kv [][2]uint32) {
	c.mu.Lock()
	c.SetSent++
	mf, mc, win := int64(-1), int64(-2), int64(-1)
	var tbl tblChange
	for _, s := range kv {
		switch s[0] {
		case 4:
			if s[1] <= 0x7fffffff {
				// a larger window holds from the moment we say so; a smaller one binds the client once it has
				// acknowledged the frame (octets sent before that were sent under the old value)
				win = int64(s[1])
			}
		case 5:
			mf = int64(s[1])
			if mf > c.MaxFrame {
				// we are ready for larger frames from the moment we say so;
				// a smaller limit only binds the client once it has acknowledged it
				c.MaxFrame = mf
			}
		case 3:
			mc = int64(s[1])
		case 1:
			if !tbl.has || s[1] < tbl.min {
				tbl.min = s[1]
			}
			tbl.has, tbl.final = true, s[1]
		}
	}
	if tbl.has {
		outstanding := false
		for _, p := range c.pendingTbl {
			if p.has {
				outstanding = true
			}
		}
		if !outstanding {
			c.Dec.LowWater = c.Dec.T.Max
		}
		// a larger table is allowed from the moment we say so; a smaller one
		// binds the client's encoder once it has acknowledged the frame
		// (blocks already on their way cannot know about it)
		if tbl.final > c.Dec.Limit {
			c.Dec.Limit = tbl.final
			c.xdec.SetAllowedMaxDynamicTableSize(tbl.final)
		}
	}
	c.pendingTbl = append(c.pendingTbl, tbl)
	c.pendingWin = append(c.pendingWin, win)
	c.applyWinLocked()
	c.pendingMF = append(c.pendingMF, mf)
	c.pendingMC = append(c.pendingMC, mc)
	c.mu.Unlock()
	_ = c.Write(rawframe.Append(nil, rawframe.Settings, 0, 0, rawframe.SettingsPayload(kv)))
}

// applyWinLocked sets the initial stream window the ledger holds the client to: the largest of the value it has
// acknowledged and the values of the SETTINGS frames it has not acknowledged yet (it may be acting on any of them).
func (c *SConn) applyWinLocked() {
	eff := int64(65535)
	if c.winAckedSet {
		eff = c.winAcked
	}
	for _, w := range c.pendingWin {
		if w > eff {
			eff = w
		}
	}
	if d := eff - c.InitWin; d != 0 {
		c.InitWin = eff
		for id := range c.StreamWin {
			c.StreamWin[id] += d
		}
	}
}

func (c *SConn) SendWindowUpdate(id uint32, n uint32) {
	c.mu.Lock()
	if id == 0 {
		c.ConnWin += int64(n)
	} else if _, ok := c.StreamWin[id]; ok {
		c.StreamWin[id] += int64(n)
	}
	c.mu.Unlock()
	_ = c.Write(rawframe.Append(nil, rawframe.WindowUpdate, 0, id, rawframe.U32(n)))
}

// EncodeBlock encodes response fields with this connection's encoder model.
func (c *SConn) EncodeBlock(sizeUpd []int, fields []peer.FieldSpec) []byte {
	var b []byte
	for _, u := range sizeUpd {
		b = c.Enc.SizeUpdate(b, uint32(u)%4097)
	}
	for _, f := range fields {
		b, _ = c.Enc.Field(b, f.F, f.R)
	}
	return b
}

// ---- reading ----------------------------------------------------------------

func (c *SConn) add(e peer.Event) {
	c.mu.Lock()
	e.Seq = len(c.Events)
	c.Events = append(c.Events, e)
	c.mu.Unlock()
}

func (c *SConn) readLoop() {
	fr := xh2.NewFramer(io.Discard, c.TLS)
	fr.AllowIllegalReads = true
	fr.SetMaxReadFrameSize(1<<24 - 1)
	var block []byte
	var blockStream uint32
	var blockEnd bool
	var blockFrames, blockMax int
	flush := func() {
		e := peer.Event{Kind: "headers", Stream: blockStream, EndStream: blockEnd, Frames: blockFrames, Length: blockMax}
		c.mu.Lock()
		e.Limit = c.MaxFrame
		fields, err := c.Dec.DecodeBlock(block)
		e.SizeUpd = append([]uint32(nil), c.Dec.SawUpdates...)
		if _, ok := c.StreamWin[blockStream]; !ok {
			c.StreamWin[blockStream] = c.InitWin
			c.open[blockStream] = true
			if len(c.open) > c.MaxOpen {
				c.MaxOpen = len(c.open)
			}
			if c.MaxConc >= 0 && int64(len(c.open)) > c.MaxConc && c.ConcViol == "" {
				c.ConcViol = fmt.Sprintf("stream %d opened while %d streams were open; our acknowledged MAX_CONCURRENT_STREAMS is %d", blockStream, len(c.open)-1, c.MaxConc)
			}
		}
		if blockEnd {
			// half-closed(remote) for us: the stream stays "open" for the limit until we answer
		}
		c.mu.Unlock()
		e.Fields = fields
		if err != nil {
			e.HdrErr = err.Error()
		} else if xf, xerr := xnetDecode(c.xdec, block); xerr != nil {
			e.HdrErr = "x/net: " + xerr.Error()
		} else if len(xf) != len(fields) {
			e.HdrErr = "x/net and the reference decoder disagree"
		}
		block = nil
		c.add(e)
	}
	for {
		f, err := fr.ReadFrame()
		if err != nil {
			if err == io.EOF || strings.Contains(err.Error(), "closed pipe") || strings.Contains(err.Error(), "use of closed") {
				c.add(peer.Event{Kind: "eof"})
			} else {
				c.add(peer.Event{Kind: "error", Err: err.Error()})
			}
			return
		}
		fh := f.Header()
		switch g := f.(type) {
		case *xh2.DataFrame:
			d := append([]byte(nil), g.Data()...)
			c.mu.Lock()
			n := int64(fh.Length)
			c.ConnWin -= n
			if _, ok := c.StreamWin[fh.StreamID]; ok {
				c.StreamWin[fh.StreamID] -= n
				if c.StreamWin[fh.StreamID] < 0 && c.FCViol == "" {
					c.FCViol = fmt.Sprintf("stream %d: DATA of %d octets exceeds the stream window by %d", fh.StreamID, n, -c.StreamWin[fh.StreamID])
				}
			}
			if c.ConnWin < 0 && c.FCViol == "" {
				c.FCViol = fmt.Sprintf("stream %d: DATA of %d octets exceeds the connection window by %d", fh.StreamID, n, -c.ConnWin)
			}
			if n > c.MaxFrame && c.FCViol == "" {
				c.FCViol = fmt.Sprintf("stream %d: DATA frame of %d octets exceeds our acknowledged MAX_FRAME_SIZE %d", fh.StreamID, n, c.MaxFrame)
			}
			c.mu.Unlock()
			c.add(peer.Event{Kind: "data", Stream: fh.StreamID, EndStream: g.StreamEnded(), Data: d, Length: int(fh.Length)})
		case *xh2.HeadersFrame:
			block = append(block[:0], g.HeaderBlockFragment()...)
			blockStream, blockEnd, blockFrames, blockMax = fh.StreamID, g.StreamEnded(), 1, int(fh.Length)
			if g.HeadersEnded() {
				flush()
			}
		case *xh2.ContinuationFrame:
			block = append(block, g.HeaderBlockFragment()...)
			blockFrames++
			if int(fh.Length) > blockMax {
				blockMax = int(fh.Length)
			}
			if g.HeadersEnded() {
				flush()
			}
		case *xh2.RSTStreamFrame:
			c.mu.Lock()
			delete(c.open, fh.StreamID)
			c.mu.Unlock()
			c.add(peer.Event{Kind: "rst", Stream: fh.StreamID, Code: uint32(g.ErrCode)})
		case *xh2.GoAwayFrame:
			c.add(peer.Event{Kind: "goaway", Last: g.LastStreamID, Code: uint32(g.ErrCode), Debug: string(g.DebugData())})
		case *xh2.SettingsFrame:
			if g.IsAck() {
				c.mu.Lock()
				c.Acks++
				if len(c.pendingWin) > 0 {
					if w := c.pendingWin[0]; w >= 0 {
						c.winAcked, c.winAckedSet = w, true
					}
					c.pendingWin = c.pendingWin[1:]
					c.applyWinLocked()
				}
				if len(c.pendingMF) > 0 {
					if c.pendingMF[0] >= 0 {
						c.MaxFrame = c.pendingMF[0]
						for _, later := range c.pendingMF[1:] {
							if later > c.MaxFrame {
								c.MaxFrame = later
							}
						}
					}
					if c.pendingMC[0] > -2 {
						c.MaxConc = c.pendingMC[0]
					}
					if p := c.pendingTbl[0]; p.has {
						// the smallest size the frame went through must have been (or must
						// still be) signalled; then the limit is the frame's final value,
						// or a larger one from a SETTINGS frame that is still on its way
						if c.Dec.LowWater > p.min && p.min < c.Dec.T.Max {
							c.Dec.SetLimit(p.min)
						}
						lim := p.final
						for _, q := range c.pendingTbl[1:] {
							if q.has && q.final > lim {
								lim = q.final
							}
						}
						c.Dec.Limit = lim
						c.xdec.SetAllowedMaxDynamicTableSize(lim)
					}
					c.pendingMF, c.pendingMC, c.pendingTbl = c.pendingMF[1:], c.pendingMC[1:], c.pendingTbl[1:]
				}
				c.mu.Unlock()
				c.add(peer.Event{Kind: "settingsack"})
			} else {
				var kv [][2]uint32
				_ = g.ForeachSetting(func(s xh2.Setting) error { kv = append(kv, [2]uint32{uint32(s.ID), s.Val}); return nil })
				c.add(peer.Event{Kind: "settings", Settings: kv})
				_ = c.Write(rawframe.Append(nil, rawframe.Settings, rawframe.FlagAck, 0, nil))
			}
		case *xh2.PingFrame:
			k := "ping"
			if g.IsAck() {
				k = "pingack"
			} else if !c.NoPingAck.Load() {
				_ = c.Write(rawframe.Append(nil, rawframe.Ping, rawframe.FlagAck, 0, g.Data[:]))
			}
			c.add(peer.Event{Kind: k, Ping: g.Data})
		case *xh2.WindowUpdateFrame:
			c.add(peer.Event{Kind: "window", Stream: fh.StreamID, Incr: g.Increment})
		case *xh2.PushPromiseFrame:
			c.add(peer.Event{Kind: "push", Stream: fh.StreamID})
		case *xh2.PriorityFrame:
			c.add(peer.Event{Kind: "priority", Stream: fh.StreamID})
		default:
			c.add(peer.Event{Kind: "unknown", Stream: fh.StreamID, Code: uint32(fh.Type)})
		}
	}
}

// Answered / MarkAnswered let a harness remember which streams it has answered.
func (c *SConn) Answered(id uint32) bool { c.mu.Lock(); defer c.mu.Unlock(); return c.answered[id] }
func (c *SConn) MarkAnswered(id uint32) {
	c.mu.Lock()
	if c.answered == nil {
		c.answered = map[uint32]bool{}
	}
	c.answered[id] = true
	c.mu.Unlock()
}

// StreamDone tells the concurrency ledger that we finished a stream (sent END_STREAM or RST).
func (c *SConn) StreamDone(id uint32) {
	c.mu.Lock()
	delete(c.open, id)
	c.mu.Unlock()
}

func xnetDecode(d *hpack.Decoder, block []byte) ([]hpack.HeaderField, error) {
	for len(block) > 0 && block[0]&0xe0 == 0x20 {
		_, rest, err := refhpack.ReadInt(block, 5)
		if err != nil {
			break
		}
		if _, err := d.DecodeFull(block[:len(block)-len(rest)]); err != nil {
			return nil, err
		}
		block = rest
	}
	return d.DecodeFull(block)
}

func (c *SConn) EventsCopy() []peer.Event {
	c.mu.Lock()
	defer c.mu.Unlock()
	return append([]peer.Event(nil), c.Events...)
}

func (c *SConn) NumEvents() int { c.mu.Lock(); defer c.mu.Unlock(); return len(c.Events) }

func (c *SConn) Violations() (flow, conc string) {
	c.mu.Lock()
	defer c.mu.Unlock()
	return c.FCViol, c.ConcViol
}

func (c *SConn) Windows(id uint32) (stream, conn int64) {
	c.mu.Lock()
	defer c.mu.Unlock()
	return c.StreamWin[id], c.ConnWin
}

func (c *SConn) AckInfo() (sent, acks int) {
	c.mu.Lock()
	defer c.mu.Unlock()
	return c.SetSent, c.Acks
}

// ---- calls ------------------------------------------------------------------

// Call is one RoundTrip issued by the harness.
type Call struct {
	Tag     string
	Done    chan struct{}
	Retry   bool
	Err     error
	Status  int
	Fields  []refhpack.Field
	Body    []byte
	Took    time.Duration
	Returns atomic.Int32
}

// ReqSpec describes a request given to the client.
type ReqSpec struct {
	Tag     string           `json:"tag"`
	Method  string           `json:"method"`
	Path    string           `json:"path"`
	Fields  []refhpack.Field `json:"fields,omitempty"`
	BodyLen int              `json:"blen,omitempty"`
	// Mode: 0 no body / buffered; 1 SetBodyStream declared; 2 SetBodyStream unknown (-1); 3 SetBodyStream empty
	Mode   int   `json:"mode,omitempty"`
	Chunks []int `json:"chunks,omitempty"`
	// Gate (streamed bodies): the first Read blocks until Env.ReleaseBodies is called: a slow body source. The
	// client's write loop is inside that Read meanwhile (HEADERS are out, nothing else can be written).
	Gate bool `json:"gate,omitempty"`
}

type bodyReader struct {
	data   []byte
	chunks []int
	i      int
	gate   chan struct{} // nil: never blocks
	parked *atomic.Int64
}

func (r *bodyReader) Read(p []byte) (int, error) {
	if r.gate != nil {
		r.parked.Add(1)
		<-r.gate
		r.parked.Add(-1)
		r.gate = nil
	}
	if len(r.data) == 0 {
		return 0, io.EOF
	}
	n := len(p)
	if len(r.chunks) > 0 {
		if c := r.chunks[r.i%len(r.chunks)]; c > 0 && c < n {
			n = c
		}
		r.i++
	}
	if n > len(r.data) {
		n = len(r.data)
	}
	copy(p, r.data[:n])
	r.data = r.data[n:]
	return n, nil
}

// Do starts a RoundTrip on its own goroutine.
func (e *Env) Do(r ReqSpec) *Call {
	call := &Call{Tag: r.Tag, Done: make(chan struct{})}
	e.started.Add(1)
	go func() {
		req := fasthttp.AcquireRequest()
		res := fasthttp.AcquireResponse()
		defer fasthttp.ReleaseRequest(req)
		defer fasthttp.ReleaseResponse(res)
		req.SetRequestURI("https://example.com" + r.Path)
		req.Header.SetMethod(r.Method)
		for _, f := range r.Fields {
			req.Header.Add(f.Name, f.Value)
		}
		body := peer.BodyFor(r.Tag, r.BodyLen)
		switch r.Mode {
		case 0:
			if r.BodyLen > 0 {
				req.SetBody(body)
			}
		case 1:
			req.SetBodyStream(&bodyReader{data: body, chunks: r.Chunks, gate: e.gateFor(r.Gate), parked: &e.gateParked}, len(body))
		case 2:
			req.SetBodyStream(&bodyReader{data: body, chunks: r.Chunks, gate: e.gateFor(r.Gate), parked: &e.gateParked}, -1)
		case 3:
			req.SetBodyStream(&bodyReader{}, 0)
		}
		t0 := time.Now()
		retry, err := e.CL.RoundTrip(e.HC, req, res)
		call.Took = time.Since(t0)
		call.Retry, call.Err = retry, err
		if err == nil {
			call.Status = res.StatusCode()
			for k, v := range res.Header.All() {
				call.Fields = append(call.Fields, refhpack.Field{Name: strings.ToLower(string(k)), Value: string(v)})
			}
			call.Body = append([]byte(nil), res.Body()...)
		}
		call.Returns.Add(1)
		close(call.Done)
		e.returned.Add(1) // last: quiescence counts a call as returned only once its result is visible
	}()
	return call
}

func (e *Env) gateFor(want bool) chan struct{} {
	if !want {
		return nil
	}
	e.gateMu.Lock()
	defer e.gateMu.Unlock()
	if e.gate == nil {
		e.gate = make(chan struct{})
	}
	return e.gate
}

// ReleaseBodies lets every gated body reader go on.
func (e *Env) ReleaseBodies() {
	e.gateMu.Lock()
	if e.gate != nil {
		close(e.gate)
		e.gate = nil
	}
	e.gateMu.Unlock()
}

func (c *Call) Finished() bool {
	select {
	case <-c.Done:
		return true
	default:
		return false
	}
}

// ---- quiescence ---------------------------------------------------------------

type connSnap struct {
	ev                   [17]int64
	busy                 int32
	winSeq, winSeen      int64
	unreadCli, unreadSrv int
	parkedCli, parkedSrv bool
	readerGone           bool
	nev                  int
}

type envSnap struct {
	started, returned int64
	gateParked        int64
	conns             int
	c                 [8]connSnap
}

func (e *Env) snapshot() envSnap {
	var s envSnap
	s.started, s.returned = e.started.Load(), e.returned.Load()
	s.gateParked = e.gateParked.Load()
	conns := e.ConnsCopy()
	s.conns = len(conns)
	for i, c := range conns {
		if i >= len(s.c) {
			break
		}
		cs := &s.c[i]
		for j := range cs.ev {
			cs.ev[j] = c.Stats.Ev[j].Load()
		}
		cs.busy = c.Stats.Busy.Load()
		cs.winSeq, cs.winSeen = c.Stats.WinSeq.Load(), c.Stats.WinSeen.Load()
		cs.unreadCli, cs.parkedCli = c.CliRaw.Unread(), c.CliRaw.ReaderParked()
		cs.unreadSrv, cs.parkedSrv = c.SrvRaw.Unread(), c.SrvRaw.ReaderParked()
		cs.readerGone = c.readerGone.Load()
		cs.nev = c.NumEvents()
	}
	return s
}

func (s envSnap) quiet() bool {
	busyAllowed := s.gateParked // a write loop inside the Read of a gated body is busy and will stay so
	for i := 0; i < s.conns && i < len(s.c); i++ {
		c := s.c[i]
		e := c.ev
		readDone := e[http2.VerifEvReadLoopExit] > 0
		writeDone := e[http2.VerifEvWriteLoopExit] > 0
		// the client has taken everything we wrote, or its read loop is gone
		if !(readDone || (c.unreadCli == 0 && c.parkedCli)) {
			return false
		}
		gatedHere := false
		if !writeDone && c.busy != 0 && busyAllowed > 0 {
			// nothing can be taken from this connection's queues until the reader is released
			busyAllowed--
			gatedHere = true
		}
		if !writeDone && !gatedHere {
			if c.busy != 0 || e[http2.VerifEvInQueued] != e[http2.VerifEvInTaken] || e[http2.VerifEvOutQueued] != e[http2.VerifEvOutTaken] || c.winSeq != c.winSeen {
				return false
			}
		}
		// we have parsed everything the client wrote
		if !(c.readerGone || (c.unreadSrv == 0 && c.parkedSrv)) {
			return false
		}
	}
	return true
}

func (s envSnap) String() string {
	out := fmt.Sprintf("started=%d returned=%d conns=%d", s.started, s.returned, s.conns)
	for i := 0; i < s.conns && i < len(s.c); i++ {
		c := s.c[i]
		e := c.ev
		out += fmt.Sprintf(" | conn%d busy=%d in=%d/%d out=%d/%d win=%d/%d exits(r/w)=%d/%d unreadCli=%d parkedCli=%v unreadSrv=%d parkedSrv=%v readerGone=%v events=%d",
			i, c.busy, e[http2.VerifEvInQueued], e[http2.VerifEvInTaken], e[http2.VerifEvOutQueued], e[http2.VerifEvOutTaken], c.winSeq, c.winSeen,
			e[http2.VerifEvReadLoopExit], e[http2.VerifEvWriteLoopExit], c.unreadCli, c.parkedCli, c.unreadSrv, c.parkedSrv, c.readerGone, c.nev)
	}
	return out
}

// Quiesce waits until nothing more can happen without new input: every loop of
// every connection idle, every octet consumed on both sides, and the state
// unchanged over three consecutive looks.
func (e *Env) Quiesce() (bool, string) {
	deadline := time.Now().Add(e.QuiesceTimeout)
	var last envSnap
	same := 0
	for i := 0; ; i++ {
		s := e.snapshot()
		if s.quiet() && e.callersParked(s) {
			if same > 0 && s == last {
				same++
				if same >= 3 {
					return true, ""
				}
			} else {
				same = 1
			}
			last = s
		} else {
			same = 0
		}
		if i < 100 {
			runtime.Gosched()
		} else {
			time.Sleep(30 * time.Microsecond)
			if i%256 == 0 && time.Now().After(deadline) {
				return false, peer.WithDeadlockEvidence(s.String())
			}
		}
	}
}

// callersParked checks that every RoundTrip the harness has in flight is
// blocked waiting for its answer (and not somewhere between picking a
// connection and queueing the request), by looking at the goroutine dump.
func (e *Env) callersParked(s envSnap) bool {
	inflight := s.started - s.returned
	if inflight == 0 && !e.timers && s.conns <= 1 {
		return true
	}
	buf := make([]byte, 1<<20)
	n := runtime.Stack(buf, true)
	waiting := int64(0)
	for _, g := range strings.Split(string(buf[:n]), "\n\n") {
		body := g
		if i := strings.Index(body, "\ncreated by "); i >= 0 {
			body = body[:i]
		}
		if strings.Contains(body, "http2.(*Dialer).Dial") || strings.Contains(body, "http2.(*Dialer).tryDial") || strings.Contains(body, "http2.(*Conn).Handshake") {
			// a connection is being set up (the client also dials replacements on its own): its SETTINGS exchange
			// is under way although every established connection is idle
			return false
		}
		if strings.Contains(g, "http2.(*Ctx).fireTimeout") {
			// a request timer is at work: the caller may already have its error while the RST_STREAM
			// for the stream is not queued yet (seen as a non-reproducible "starved" under load)
			return false
		}
		if !strings.Contains(g, "(*Client).RoundTrip") {
			continue
		}
		if strings.Contains(g, "(*Client).roundTripOnce") && strings.HasPrefix(g[strings.Index(g, "["):], "[chan receive") && !strings.Contains(g, "pickConn") {
			waiting++
		} else {
			return false
		}
	}
	return waiting == inflight
}

// ClientGoroutines returns the stacks of goroutines inside the client half of the library.
func ClientGoroutines() []string {
	var out []string
	for _, g := range peer.LibraryGoroutines() {
		if strings.Contains(g, "http2.(*Conn)") || strings.Contains(g, "http2.(*Client)") || strings.Contains(g, "http2.(*Ctx)") {
			out = append(out, g)
		}
	}
	return out
}
