#!/bin/bash
# prints lane/sig/message/case of replay files
for f in "$@"; do python3 -c "
import json,sys
d=json.load(open('$f')); print(d.get('lane'), d.get('sig'), (d.get('message') or '')[:900]); print(json.dumps(d.get('case'))[:700])"; done
