#!/bin/bash
# usage: tools/mutant.sh <patch.diff | -R:<commit>> <check id>...
# Applies the patch to /repo (or reverse-applies a commit), runs the quick checks, restores /repo.
set -u
P="$1"; shift
cd /repo || exit 2
if [ -n "$(git status --porcelain)" ]; then echo "/repo not clean"; exit 2; fi
if [[ "$P" == -R:* ]]; then git show "${P#-R:}" | git apply -R - || { echo "cannot reverse-apply"; exit 2; }
else git apply "$P" || { echo "cannot apply"; exit 2; }; fi
trap 'cd /repo && git checkout -q -- . && git clean -fdq' EXIT
( GOFLAGS=-mod=mod GOPROXY=off go build ./... ) || { echo "MUTANT DOES NOT BUILD"; exit 2; }
cd /verif
for id in "$@"; do
  out=$(VERIF_NOEVIDENCE=1 ./check "$id" --tier ${TIER:-quick} 2>&1); rc=$?
  echo "== $id exit=$rc"; echo "$out" | grep -E "^(VIOLATION|KNOWN-FINDING|INCONCLUSIVE|  )" | cut -c1-400 | head -8
done
