#!/usr/bin/env python3
"""tools/mkseedtask.py <ID>... : creates a scratch worktree /tmp/wt-<ID> of /repo HEAD and writes the blind seeding task
(property text only) to /tmp/wt-<ID>/TASK.md"""
import json, subprocess, sys
props = {json.loads(l)['id']: json.loads(l) for l in open('/verif/properties.jsonl')}
T = open('/verif/tools/' + __import__('os').environ.get('SEED_TMPL', 'seedtask.tmpl')).read()
for pid in sys.argv[1:]:
    wt = '/tmp/wt-' + pid
    subprocess.run(['git', '-C', '/repo', 'worktree', 'add', '--detach', '-f', wt, 'HEAD'], check=True, stdout=subprocess.DEVNULL, stderr=subprocess.DEVNULL)
    p = props[pid]
    text = "%s. %s (Quantified over: %s.)" % (p['title'], p['statement'], p['quantifier']['text'])
    open(wt + '/TASK.md', 'w').write(T.replace('@WT@', wt).replace('@PROPERTY@', text))
    print(wt)
