#!/usr/bin/env python3
"""tools/alt.py <patch.diff|-R:commit> <name> <check ids...>
Runs quick (or $TIER) checks against a scratch worktree of /repo HEAD with the patch applied, through the driver's
VERIF_ALT_REPO mode: /repo and /verif are not touched, so several of these can run at once.
Prints one line per check and a JSON summary; removes the worktree afterwards."""
import json, os, subprocess, sys

def run_alt(patch, name, checks, tier=None, keep=False, seed=None):
    env = dict(os.environ, GOFLAGS="-mod=mod", GOPROXY="off"); env.pop("GOSUMDB", None)
    wt = "/tmp/alt-" + name
    subprocess.run(["git", "-C", "/repo", "worktree", "remove", "--force", wt], stdout=subprocess.DEVNULL, stderr=subprocess.DEVNULL)
    subprocess.run(["git", "-C", "/repo", "worktree", "add", "--detach", "-f", wt, "HEAD"], check=True, stdout=subprocess.DEVNULL, stderr=subprocess.DEVNULL)
    res = {}
    try:
        if patch.startswith("-R:"):
            d = subprocess.run(["git", "-C", wt, "show", patch[3:]], stdout=subprocess.PIPE, check=True).stdout
            subprocess.run(["git", "-C", wt, "apply", "-R"], input=d, check=True)
        elif patch:
            if subprocess.run(["git", "-C", wt, "apply", os.path.abspath(patch)], stderr=subprocess.DEVNULL).returncode != 0:
                # /repo has moved on since the change was written (later fix: commits): three-way merge against the blobs it names
                subprocess.run(["git", "-C", wt, "apply", "-3", os.path.abspath(patch)], check=True)
                print("(patch applied with a three-way merge)", flush=True)
        for c in checks:
            e = dict(env, VERIF_ALT_REPO=wt)
            if seed: e["VERIF_SEED"] = str(seed)
            p = subprocess.run(["/verif/check", c, "--tier", tier or os.environ.get("TIER", "quick")], cwd="/verif", env=e,
                               stdout=subprocess.PIPE, stderr=subprocess.STDOUT, text=True)
            lines = [l for l in p.stdout.splitlines() if l.startswith(("VIOLATION", "  ", "INCONCLUSIVE", "KNOWN-FINDING"))][:8]
            res[c] = {"exit": p.returncode, "lines": lines}
            print("check", c, "exit", p.returncode, lines[:3], flush=True)
    finally:
        # keep the replay files of what was reported (the worktree goes away)
        rp = os.path.join(wt, ".verif-out", "replays")
        if os.path.isdir(rp) and any(not f.startswith(".") for f in os.listdir(rp)):
            dst = "/tmp/sweep/alt-replays/" + name
            subprocess.run(["rm", "-rf", dst]); os.makedirs(os.path.dirname(dst), exist_ok=True)
            subprocess.run(["cp", "-r", rp, dst])
        if not keep:
            subprocess.run(["git", "-C", "/repo", "worktree", "remove", "--force", wt], stdout=subprocess.DEVNULL, stderr=subprocess.DEVNULL)
    return res

if __name__ == "__main__":
    r = run_alt(sys.argv[1], sys.argv[2], sys.argv[3:], keep=bool(os.environ.get("KEEP")))
    print(json.dumps({c: v["exit"] for c, v in r.items()}))
