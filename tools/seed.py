#!/usr/bin/env python3
"""tools/seed.py <worktree> <ID> <A|B> <check ids...>
Confirms a seeded change made by a sub-agent and records it under /verif/seeded/<ID>-<X>/:
 1. in the scratch worktree: patch applies, builds, demo test FAILS with it and PASSES without it,
    and the pinned suite passes with it (go test . ./h2spec; up to 3 attempts, the suite has load-sensitive tests)
 2. scratch worktree of /repo HEAD with the patch: run the named checks there (quick; VERIF_ALT_REPO, no evidence), remove it
"""
import json, os, re, shutil, subprocess, sys, glob
wt, pid, x = sys.argv[1], sys.argv[2], sys.argv[3]
checks = sys.argv[4:]
env = dict(os.environ, GOFLAGS="-mod=mod", GOPROXY="off")
env.pop("GOSUMDB", None)
src = os.path.join(wt, "seed", x)
x = os.environ.get("SEED_AS", x)  # store under another letter (later rounds: C, D, ...)
patch = os.path.join(src, "patch.diff")
demos = [f for f in glob.glob(os.path.join(src, "*_test.go"))]
def sh(cmd, cwd, timeout=1800):
    p = subprocess.run(cmd, cwd=cwd, env=env, shell=True, stdout=subprocess.PIPE, stderr=subprocess.STDOUT, text=True, timeout=timeout)
    return p.returncode, p.stdout
meta = {"property": pid, "seed": x, "ran": []}
def note(k, v): meta[k] = v; print(k, "=", v if not isinstance(v, str) or len(v) < 300 else v[:300] + "…")
assert sh("git status --porcelain --untracked-files=no", wt)[1].strip() == "", "worktree not clean"
rc, out = sh("git apply --check %s" % patch, wt); assert rc == 0, out
for d in demos: shutil.copy(d, wt)
names = " ".join(os.path.basename(d) for d in demos)
runre = "|".join(sorted(set(re.findall(r"^func (Test\w+)\(", "".join(open(d).read() for d in demos), re.M))))
demo_cmd = "go test -vet=off -count=1 -run '^(%s)$' -timeout 300s ." % runre
rc0, out0 = sh(demo_cmd, wt); note("demo_without_change", "pass" if rc0 == 0 else "FAIL")
sh("git apply %s" % patch, wt)
rcb, outb = sh("go build ./... && go build -tags verif ./...", wt); note("builds_with_change", rcb == 0)
rc1, out1 = sh(demo_cmd, wt); note("demo_with_change", "pass" if rc1 == 0 else "fail")
meta["demo_output_with_change"] = out1[-1500:]
for d in demos: os.remove(os.path.join(wt, os.path.basename(d)))
suite = "n/a"
try: suite = json.load(open("/verif/seeded/%s-%s/meta.json" % (pid, x))).get("suite_with_change", "n/a")  # keep an earlier confirmation
except Exception: pass
if os.environ.get("SEED_SUITE", "1") == "1":
    for attempt in range(3):
        rcs, outs = sh("go test -vet=off -count=1 -timeout 25m . ./h2spec", wt, timeout=2400)
        suite = "pass (attempt %d)" % (attempt + 1) if rcs == 0 else "fail: " + " ".join(re.findall(r"--- FAIL: (\S+)", outs))[:300]
        if rcs == 0: break
note("suite_with_change", suite)
sh("git checkout -- . ", wt)
# --- my checks against a scratch worktree with the change applied (driver's VERIF_ALT_REPO mode; /repo is not touched)
sys.path.insert(0, "/verif/tools")
from alt import run_alt
# /repo may have moved on under the change (later fix: commits touching the same lines): a hand-ported patch next to
# the original is what the checks are run against; both are kept
rebased = os.path.join(src, "patch.rebased.diff")
res = run_alt(rebased if os.path.exists(rebased) else patch, "%s-%s" % (pid, x), checks)
meta["checks"] = res
meta["caught_by"] = [c for c, r in res.items() if r["exit"] == 1]
dst = os.path.join("/verif/seeded", "%s-%s" % (pid, x)); os.makedirs(dst, exist_ok=True)
shutil.copy(patch, dst)
if os.path.exists(rebased):
    shutil.copy(rebased, dst); meta["rebased"] = "patch.rebased.diff is the same change ported to the current /repo HEAD (the original no longer applies); the checks ran against it"
for d in demos: shutil.copy(d, os.path.join(dst, os.path.basename(d) + ".txt"))  # .txt: not compiled by anything
if os.path.exists(os.path.join(src, "README.md")): shutil.copy(os.path.join(src, "README.md"), os.path.join(dst, "agent-README.md"))
meta["ran"] = ["git apply patch.diff (scratch worktree); go build ./...; %s (with / without the change); go test -vet=off . ./h2spec (with the change)" % demo_cmd,
               "scratch worktree of /repo HEAD + patch.diff; VERIF_ALT_REPO=<worktree> ./check <id> --tier quick for %s; worktree removed" % ",".join(checks)]
json.dump(meta, open(os.path.join(dst, "meta.json"), "w"), indent=1)
print("RESULT", pid, x, "caught_by", meta["caught_by"])
