#!/usr/bin/env python3
"""tools/seedsuite.py <ID-X>... : runs the pinned suite in the scratch worktree with the seeded patch applied, records the result in seeded/<ID-X>/meta.json"""
import json, os, re, subprocess, sys
env = dict(os.environ, GOFLAGS="-mod=mod", GOPROXY="off"); env.pop("GOSUMDB", None)
for name in sys.argv[1:]:
    pid, x = name.split("-")
    wt = "/tmp/wt-%s" % pid
    d = "/verif/seeded/%s" % name
    def sh(cmd, timeout=2400):
        p = subprocess.run(cmd, cwd=wt, env=env, shell=True, stdout=subprocess.PIPE, stderr=subprocess.STDOUT, text=True, timeout=timeout)
        return p.returncode, p.stdout
    sh("git checkout -- .")
    rc, out = sh("git apply %s/patch.diff" % d)
    res = "patch does not apply: " + out[:200]
    if rc == 0:
        for attempt in range(3):
            rcs, outs = sh("go test -vet=off -count=1 -timeout 25m . ./h2spec")
            res = "pass (attempt %d)" % (attempt + 1) if rcs == 0 else "fail: " + " ".join(re.findall(r"--- FAIL: (\S+)", outs))[:300]
            if rcs == 0: break
    sh("git checkout -- .")
    m = json.load(open(d + "/meta.json")); m["suite_with_change"] = res
    json.dump(m, open(d + "/meta.json", "w"), indent=1)
    print(name, res, flush=True)
