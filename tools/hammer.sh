#!/bin/bash
# tools/hammer.sh <parallel> <ids...>: runs the quick tier of each id <parallel> times at once on clean scratch worktrees
# (different VERIF_SEED each) to look for false alarms under load. Prints every run that does not exit 0 and keeps its worktree.
par=$1; shift
export GOFLAGS=-mod=mod GOPROXY=off
for id in "$@"; do
  for k in $(seq 1 $par); do
    ( out=$(VERIF_SEED=$((RANDOM%9000+1)) KEEP=1 python3 /verif/tools/alt.py "" hm-$id-$k $id 2>&1 | tail -1)
      if echo "$out" | grep -q ": 0}"; then git -C /repo worktree remove --force /tmp/alt-hm-$id-$k; else echo "$id run $k: $out (kept /tmp/alt-hm-$id-$k)"; fi ) &
  done
  wait
  echo "done $id"
done
