#!/usr/bin/env python3
"""tools/recheck.py <ID-X> <check>... : re-runs quick checks against a stored seeded change (no worktree needed)
and updates checks/caught_by in seeded/<ID-X>/meta.json. Runs in a scratch worktree (tools/alt.py); /repo is not touched."""
import json, os, subprocess, sys
name, checks = sys.argv[1], sys.argv[2:]
d = "/verif/seeded/" + name
env = dict(os.environ, GOFLAGS="-mod=mod", GOPROXY="off", VERIF_NOEVIDENCE="1"); env.pop("GOSUMDB", None)
def sh(cmd, cwd): 
    p = subprocess.run(cmd, cwd=cwd, env=env, shell=True, stdout=subprocess.PIPE, stderr=subprocess.STDOUT, text=True)
    return p.returncode, p.stdout
sys.path.insert(0, "/verif/tools")
from alt import run_alt
m = json.load(open(d + "/meta.json"))
for c, v in run_alt(d + ("/patch.rebased.diff" if os.path.exists(d + "/patch.rebased.diff") else "/patch.diff"), name, checks).items():
    m.setdefault("checks", {})[c] = v
m["caught_by"] = sorted(k for k, v in m["checks"].items() if v["exit"] == 1)
json.dump(m, open(d + "/meta.json", "w"), indent=1)
print("RESULT", name, "caught_by", m["caught_by"])
