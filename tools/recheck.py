#!/usr/bin/env python3
"""tools/recheck.py <ID-X> <check>... : re-runs quick checks against a stored seeded change (no worktree needed)
and updates checks/caught_by in seeded/<ID-X>/meta.json. /repo must be clean; it is restored afterwards."""
import json, os, subprocess, sys
name, checks = sys.argv[1], sys.argv[2:]
d = "/verif/seeded/" + name
env = dict(os.environ, GOFLAGS="-mod=mod", GOPROXY="off", VERIF_NOEVIDENCE="1"); env.pop("GOSUMDB", None)
def sh(cmd, cwd): 
    p = subprocess.run(cmd, cwd=cwd, env=env, shell=True, stdout=subprocess.PIPE, stderr=subprocess.STDOUT, text=True)
    return p.returncode, p.stdout
assert sh("git status --porcelain", "/repo")[1].strip() == "", "/repo not clean"
rc, out = sh("git apply %s/patch.diff" % d, "/repo"); assert rc == 0, out
m = json.load(open(d + "/meta.json"))
try:
    for c in checks:
        rc, out = sh("./check %s --tier quick" % c, "/verif")
        m.setdefault("checks", {})[c] = {"exit": rc, "lines": [l for l in out.splitlines() if l.startswith(("VIOLATION", "KNOWN-FINDING", "INCONCLUSIVE"))][:6]}
finally:
    sh("git checkout -- . && git clean -fdq", "/repo")
m["caught_by"] = sorted(k for k, v in m["checks"].items() if v["exit"] == 1)
json.dump(m, open(d + "/meta.json", "w"), indent=1)
print("RESULT", name, "caught_by", m["caught_by"])
