#!/usr/bin/env python3
# validates MANIFEST.json and evidence/*.json against the schemas (needs jsonschema: python3-vt)
import json,sys,glob,jsonschema
ok=True
m=json.load(open('/verif/MANIFEST.json'))
jsonschema.validate(m,json.load(open('/root/.vp/MANIFEST.schema.json')))
es=json.load(open('/root/.vp/EVIDENCE.schema.json'))
for c in m['checks']:
    try:
        jsonschema.validate(json.load(open(c['evidence_file'])),es)
    except Exception as e:
        ok=False; print('BAD',c['evidence_file'],str(e)[:300])
print('manifest ok; evidence', 'ok' if ok else 'BAD')
