#!/usr/bin/env python3
"""Regenerates MANIFEST.json from the table below (kept in one place so it stays valid)."""
import json, subprocess
HOOK_COMMITS = subprocess.run(["git","-C","/repo","log","--format=%H %s"],capture_output=True,text=True).stdout.splitlines()
HOOK_COMMITS = [l.split()[0] for l in HOOK_COMMITS if " verif hooks:" in l]

CHECKS = {
 "C15": dict(technique="exhaustive enumeration + property-based differential testing (rapid) + native fuzzing against an RFC 7541 reference Huffman coder",
   text="All plain strings of length <=2 and all coded inputs of length <=3 are enumerated completely (thorough: plus every 4-byte input starting 0xfe/0xff); beyond that, generated search (long strings over all 256 symbols, tail-mutated encodings, arbitrary bytes, coverage-guided fuzzing in the thorough tier). Exploration: absence beyond the enumerated lengths is not established.",
   note="Trusted: x/net hpack Huffman table as RFC 7541 Appendix B (self-checked prefix-free/Kraft), the in-harness bitwise reference coder (cross-checked against x/net on a slice of the space every run).",
   ref="6.2 C15"),
 "C03": dict(technique="model-based property testing (rapid) against an in-harness RFC 7541 encoder/table model + differential testing of rejection against a strict reference decoder + native fuzzing",
   text="Generated block sequences over every representation/Huffman/index choice, size-update and limit schedule are decoded through the server's block-level entry point; field lists and the dynamic table are compared with the encoder model after every block. Mutated and arbitrary blocks are judged against a strict reference decoder (reject iff invalid, same output otherwise). Exploration only.",
   note="Trusted: the in-harness RFC 7541 reference (encoder, table, strict decoder), guarded by x/net's decoder on every generated block; hook VerifNextField/VerifDynamic only expose existing state.",
   ref="6.2 C03"),
 "C04": dict(technique="model-based property testing (rapid): encoder output decoded by a strict RFC 7541 reference decoder and by x/net, table equality after every block",
   text="Generated AppendHeader histories (all static names, arbitrary-byte names/values, boundary lengths, store/sensitive flags, compression switches, SetMaxTableSize schedules incl. several changes between blocks) must decode, under a strict reference decoder configured with the peer's limits, to the same fields with the same sensitivity, keep both tables equal, stay within the limit and announce lowered limits. Exploration only.",
   note="Trusted: strict reference decoder + x/net decoder; VerifDynamic hook reads the encoder's table.",
   ref="6.2 C04"),
 "C05": dict(technique="property-based differential testing (rapid): frames written octet by octet vs the library's reader; the library's writer vs x/net's Framer and a raw header parser",
   text="Both directions of the frame codec against independent implementations: generated frames of all 10 types with any flag octet, padding, priority section and reserved bits are read and every public getter compared with the written field (plus exact consumption via a sentinel frame); frames built through the public setters are written and read back by x/net. Exploration only.",
   note="Trusted: in-harness RFC 7540 section 6 layouts (rawframe), x/net Framer.",
   ref="6.2 C05"),
 "C16": dict(technique="property-based testing (rapid) with a structure validator oracle, x/net differential, pool-state observer and allocation measurement; native fuzzing in the thorough tier",
   text="Generated and fuzzed octet streams (well-formed frames, structurally impossible frames, lying lengths, unknown types, truncations at every offset, raw bytes) are read until the first failure; each step is judged by an RFC 7540 section 6 validator (must fail / must succeed), x/net's reading, exact consumption, allocation before rejection and the pool observer (double release, two owners). HPACK.Next on arbitrary octets must make progress and bound its output. Exploration only.",
   note="Trusted: in-harness structure validator, x/net Framer, the pool hook (observes Get/Put only).",
   ref="6.2 C16"),
 "C01": dict(technique="model-based property testing (rapid) of the served connection: scripted in-memory peer with an independent HPACK encoder/decoder and frame codec, generated encodings/fragmentations/interleavings/handler schedules, quiescence decided by hook counters",
   text="Generated sets of well-formed requests are multiplexed over one in-memory connection with every wire-level freedom the property names (representation choice per field, HEADERS/CONTINUATION cuts at any octet, padding, priority, DATA chunking, cross-stream interleaving, handler release order, lock-step or burst); the handler's view and the frames received are compared with what was sent / produced. Exploration only: schedules inside the server's own goroutines are sampled, not enumerated.",
   note="Trusted: in-harness reference HPACK + x/net Framer/decoder as the peer; fasthttp containers; hook counters (add no synchronisation) for quiescence.",
   ref="6.2 C01"),
 "C20": dict(technique="grammar-based property testing (rapid) against an executable RFC 7540 8.1.2 well-formedness predicate, on a served connection with neighbours",
   text="Header lists are generated from a grammar (well-formed base + catalogue of single and double rule violations, about half well-formed) and placed among other requests; the handler must run iff the predicate holds, otherwise that stream alone is refused with RST_STREAM(PROTOCOL_ERROR) or a 4xx while neighbours and HPACK state stay intact. The client lane does the same for response header lists (single valid :status first, lower-case, no connection-specific fields, numeric content-length) through RoundTrip against the scripted TLS server, with neighbour requests before and after sharing HPACK entries. Exploration only.",
   note="Trusted: the predicate of DESIGN appendix B (derived from the RFC text), the scripted peer; CONNECT and out-of-grammar characters excluded as the property says.",
   ref="6.2 C20"),
 "C08": dict(technique="model-based property testing (rapid): RFC 7540 5.1/6 reaction model (set of allowed reactions per state x frame) followed along generated frame sequences, plus bounded-exhaustive enumeration of all sequences of <=3 symbols over a fixed (frame, stream slot) alphabet; lock-step via hook-counter quiescence",
   text="Generated frame sequences (all stream-level frame kinds with flag/priority/padding/increment variants and undefined flag bits, on new, open, half-closed, reset, completed, skipped, even and zero stream ids, with connection frames in between; immediate or gated handlers) are sent one frame at a time; after each, the observed reaction must lie in the set the RFC allows for that state and frame, legal sequences must raise no error, and handler invocations must equal the legally completed requests. The same oracle is run over every sequence of 1..3 symbols of a 49-symbol alphabet (complete in the thorough tier, a seed-chosen residue class of the length-3 sequences in the quick tier) and over a seed-chosen sixteenth of the length-4 sequences (thorough). Exploration only: exhaustive within that bounded alphabet, sampled beyond it.",
   note="Trusted: the reaction table of DESIGN appendix A (union of what RFC 7540/9113 permit, so server latitude is never flagged); quiescence from hook counters.",
   ref="6.2 C08, appendix A"),
 "C09": dict(technique="property-based testing (rapid) of offence placement: catalogue of stream-scoped offences x offence point x in-flight frames among well-formed streams that share HPACK dynamic-table entries; exchange oracle on every non-offending stream",
   text="Generated connections mix well-formed requests with stream-scoped offences (malformed field, content-length mismatch, oversized body, refused stream, peer RST at four points, handler panic, stream WINDOW_UPDATE overflow/zero) and frames written before the peer could see the server's reaction; all blocks share a vocabulary so later blocks index entries inserted by offending ones. No GOAWAY/EOF may occur and every well-formed request, plus a final probe indexing the whole vocabulary, must be served exactly. Exploration only.",
   note="Trusted: scripted peer and reference HPACK; the peer behaves as a conforming client (returns connection credit for everything it received).",
   ref="6.2 C09"),
 "C06": dict(technique="model-based property testing (rapid): peer-side flow-control ledger as reference model over generated grant schedules, lock-step via hook-counter quiescence",
   text="Generated vectors of concurrent responses (buffered/streamed, up to 200000 bytes) are drained under generated schedules of stream/connection WINDOW_UPDATEs, SETTINGS_INITIAL_WINDOW_SIZE increases and decreases (incl. driving windows negative) and handler releases; the peer's ledger is the authority: no DATA beyond either window or over MAX_FRAME_SIZE, no idle server while both windows are positive and bytes are owed (decided at quiescence), exact completion after generous grants. Exploration only.",
   note="Trusted: the peer's ledger (built from exactly the frames it sent), hook counters for quiescence.",
   ref="6.2 C06"),
 "C14": dict(technique="model-based property testing (rapid): conforming-sender model that blocks exactly when its ledger is exhausted; starvation decided at quiescence",
   text="A sender model uploads generated bodies (chunking, padding, empty frames, interleaving, streams ending in stream errors with frames in flight), repeating the pattern until more than two connection windows have moved; it sends only when the ledger built from the receiver's SETTINGS/WINDOW_UPDATE frames allows. Violations: increment 0, window above 2^31-1, or a quiescent receiver while the sender cannot send its next frame on a stream that is still open (which is how cumulative credit leaks surface). The client lane mirrors it for downloads through RoundTrip against the scripted server as sender model, including requests abandoned by their callers (MaxResponseTime) while the server keeps sending, and padded / all-padding DATA frames. Exploration only.",
   note="Trusted: the sender model's ledger; hook counters for quiescence.",
   ref="6.2 C14"),
 "C10": dict(technique="property-based testing (rapid) of offence placement with fault behaviours of the peer (silent / keeps sending / floods / stops reading / closes); invariants over the observed history (GOAWAY vs handler log), bounded-time return with goroutine-dump evidence",
   text="A catalogue of 24 connection-scoped offences (plus idle-timeout shutdown racing requests) is placed inside generated well-formed traffic with answered, in-flight (parked handlers) and trailing requests and five trailing behaviours of the peer; optionally the peer first stops reading and fills the server's write queue exactly (hook counters) before the burst that carries the offence, and optionally the in-flight handlers hold every concurrency slot while a request on a lower, skipped id is refused. Checked: GOAWAY last-stream-id never below a dispatched stream, code within the RFC's set (or bare close), nothing after the offence dispatched, ServeConn returns with handlers released and leaves no goroutine. A missed 6 s bound is a violation only with a goroutine dump proving a permanent block (hand-off to an exited loop, Write to a peer the harness keeps from reading); otherwise inconclusive. Exploration only; internal schedules are sampled.",
   note="Trusted: appendix C of DESIGN for allowed codes; hook counters; Go runtime goroutine dumps as evidence.",
   ref="6.2 C10, appendix C"),
 "C13": dict(technique="property-based testing (rapid) of adversarial frame schedules with hook gauges as invariants and a metamorphic relation (schedule played 1x vs 4x)",
   text="Generated attack schedules (rapid reset with parked handlers, half-open streams, PRIORITY on new ids, CONTINUATION floods incl. a never-completed string, oversized / mis-declared bodies, oversized header lists in one block or only together with the trailers, a never-completed string on a stream refused because every slot is held, PING/SETTINGS floods) against small limits; invariants at every quiescent point: concurrent handlers <= MaxConcurrentStreams, no handler for a request over a limit, stream table / closed-id memory / buffered header and body octets within limit-derived bounds (high-water marks from the stream loop's own gauges); playing the schedule four times must leave the gauges where one pass leaves them. Exploration only.",
   note="Trusted: gauges published by the hook at the top of each stream-loop iteration; the bounds are derived from the configured limits plus one frame.",
   ref="6.2 C13"),
 "C17": dict(technique="fault-injecting property-based testing (rapid): recorded well-formed byte streams x cut offsets (sampled, and every offset of six fixed recordings) x structure-aware mutations x frame soups x peer/transport faults; invariants from the server log, goroutine dumps attributed to the connection, and the pool observer",
   text="Recorded well-formed client streams are delivered up to any byte, mutated frame-wise, extended with frame soup, with the peer not reading or the server's writes failing from any octet, ended by EOF or reset, with handlers released before or after the disconnect. Checked: no panic in the server's log (recovered ones count) and no process death (crash journal), ServeConn returns within 6 s of the peer being gone, only harness-held handler goroutines of that connection remain (none after release), no RequestCtx is returned to its pool while its handler is inside, no double release. Exploration (random cut points and mutations, not every offset of every recording).",
   note="Trusted: goroutine dumps filtered by the connection object's address (hook), pool observer, captured logger.",
   ref="6.2 C17"),
 "C02": dict(technique="model-based property testing (rapid) of the client through its public RoundTrip API against a scripted in-memory TLS server with an independent HPACK/frame codec; generated request sets, response encodings/fragmentations/interleavings; quiescence from hook counters plus goroutine states",
   text="Generated sets of concurrent requests (all body shapes) go through ConfigureClient/RoundTrip to a scripted server that checks what arrives (stream ids, pseudo-headers, field multiset minus connection-specific fields, body, END_STREAM) and answers each stream with a generated, tagged response whose header block is cut at arbitrary octets and whose frames are interleaved with other streams'; every caller must get exactly its own response. Exploration only; the client's internal schedules are sampled (lock-step and burst).",
   note="Trusted: scripted server (x/net Framer + reference HPACK), fasthttp containers (cookie merging, URI re-encoding are excluded from the comparison), hook counters.",
   ref="6.2 C02"),
 "C07": dict(technique="model-based property testing (rapid): the scripted server's flow-control ledger as reference model over generated grant/SETTINGS schedules; client quiescence from hook counters and caller goroutine states",
   text="Generated concurrent uploads (all request body shapes up to 300000 bytes) are drained under generated schedules of stream/connection WINDOW_UPDATEs and SETTINGS_INITIAL_WINDOW_SIZE / SETTINGS_MAX_FRAME_SIZE changes in both directions; the server-side ledger is the authority (no DATA beyond either window, no frame above the MAX_FRAME_SIZE in force), no upload may sit idle at quiescence with both windows positive, and after generous grants every body arrives exact with END_STREAM once and every caller gets its response. Exploration only; races between the client's read and write loops are sampled, not enumerated.",
   note="Trusted: the scripted server's ledger; hook counters.",
   ref="6.2 C07"),
 "C11": dict(technique="property-based testing (rapid) over GOAWAY positions: invariants over the observed history across all scripted connections (HEADERS count per request tag, RoundTrip results)",
   text="Generated positions of GOAWAY(last-stream-id, code) relative to 1..5 in-flight requests (bodies buffered or streamed, small, larger than the window and therefore pending, or fed by a reader that blocks until the connection is gone) with partial responses, a possible REFUSED_STREAM, later answers in any order, connection loss, and further requests racing the GOAWAY. Checked per request tag over every connection the client dials: HEADERS at most once unless each earlier copy was disclaimed by its connection; no stream opened after the GOAWAY was seen; disclaimed requests resolved at quiescence and never successful from that connection; retry==true only when the server cannot have processed the request; answered requests at or below last-stream-id succeed exactly; a copy the client sends again carries the original body; everything resolves exactly once. Exploration only.",
   note="Trusted: scripted servers' frame logs; the client's quiescence.",
   ref="6.2 C11"),
 "C12": dict(technique="fault-injecting property-based testing (rapid) of the client: recorded server streams x cut offsets (sampled, and every offset of one fixed recording) x frame mutations x scripted adversaries x transport faults x Close timing; differential oracle for successes against an independent parser of the delivered octets",
   text="Requests with buffered or streamed bodies (some larger than the window, so still pending when the server's octets arrive); recorded well-formed response streams are cut at any octet, mutated frame-wise, or interrupted by scripted adversaries, followed by silence / close / reset, with write failures on the client's side or Client.Close() at generated stages. Every RoundTrip must return exactly once within MaxResponseTime plus a margin (misses are reported with the client's goroutine dump), a success must equal the complete well-formed response an independent parser (x/net Framer + strict reference HPACK) finds on that stream in the octets actually delivered, after a pure cut followed by silence the rest of the stream may arrive late (after the callers have timed out) and follow-up requests on the same connection must then succeed with blocks that index the late entries; follow-up requests on a fresh connection must get their own responses; a separate lane checks that the number of unanswered PINGs after which a silent server is given up does not depend on the connection's history (metamorphic, counts not durations); no client loop may remain after Close, and the process must survive. Exploration: cut points and mutations are sampled; timing-dependent paths (timeouts, Close races) run with real but short timers.",
   note="Trusted: the reference parser of the delivered octets; wall-clock bound only as 'resolved within timeout + 4 s'.",
   ref="6.2 C12"),
 "C18": dict(technique="property-based testing (rapid) of SETTINGS histories in both roles: invariants over the observed frames (ACK count at quiescence, frame lengths vs the limit in force, open-stream count, strict reference HPACK decoder sized to the advertised table)",
   text="Generated sequences of SETTINGS frames (all parameters, repeats, unknown ids, boundary/zero/invalid values) interleaved with requests and responses whose header lists and bodies straddle the advertised sizes, against the server (scripted client peer) and against the client (scripted TLS server). Checked: every SETTINGS acknowledged exactly once by the next quiescent point, invalid values end the connection (server: RFC's code), no frame incl. HEADERS/CONTINUATION above the MAX_FRAME_SIZE in force, concurrently open streams within MAX_CONCURRENT_STREAMS, header blocks decodable under a strict decoder sized to HEADER_TABLE_SIZE with lowered sizes announced, the endpoint's own advertised frame size enforced on input, ENABLE_PUSH=0 advertised by the client and PUSH_PROMISE fatal. Exploration only.",
   note="Trusted: strict reference HPACK decoder, scripted peers' ledgers; 'acknowledged in order' is checked as count-at-quiescence (ACK frames carry no identity).",
   ref="6.2 C18"),
 "C19": dict(technique="property-based workload generation (rapid) under the Go race detector plus a pool-ownership observer; race reports parsed and judged by signature",
   text="Burst-mode and fault workloads generated by the same rapid generators as the connection-level properties (plus two dedicated burst lanes that change SETTINGS, INITIAL_WINDOW_SIZE included on the client side, in runs of frames while requests, responses, resets and pings are in flight, in both roles) run in a -race binary, server-role cases on three connections at once to share the process-wide pools. Any race report with a library frame in either access stack is a violation (signature = innermost library frame of each access); the pool observer flags double release, objects handed out while owned, and request contexts recycled while their handler runs. Exploration only: schedules are sampled by repetition and parallelism, not enumerated; a race needing one rare preemption can be missed.",
   note="Trusted: Go race detector (sound for the schedules that actually occur), pool hook; harness-only race reports are treated as inconclusive, not as findings.",
   ref="6.2 C19, section 9"),
}
PENDING = {}  # id -> reason, for properties not claimed (yet)

def main():
    props=[json.loads(l) for l in open('/verif/properties.jsonl')]
    checks=[]; na=[]
    for p in props:
        i=p['id']
        if i in CHECKS:
            c=CHECKS[i]
            checks.append(dict(property_id=i,
              quick_cmd="./check %s --tier quick"%i,
              thorough_cmd="./check %s --tier thorough"%i,
              evidence_file="/verif/evidence/%s.json"%i,
              replay_cmd_template="./check %s --replay {path}"%i,
              engine="rapid+gofuzz",
              level_claimed=dict(category="exploration",text=c['text'],design_ref=c['ref']),
              level_note=c['note'], technique=c['technique']))
        else:
            na.append(dict(property_id=i,reason=PENDING.get(i,"check not built yet in this session (planned, see DESIGN.md section 11); nothing is claimed for it")))
    m=dict(version=1,
      setup_cmd="cd /verif/harness && GOFLAGS=-mod=mod GOPROXY=off go test -c -tags verif -o /verif/.build/props.test ./props && GOFLAGS=-mod=mod GOPROXY=off go test -c -race -tags verif -o /verif/.build/props-race.test ./props",
      hooks=dict(guard="verif (Go build tag)",
        enable="the harness module /verif/harness replaces github.com/dgrr/http2 with /repo and every check builds with `go test -tags verif`",
        baseline_off_cmd="cd /repo && GOFLAGS=-mod=mod GOPROXY=off go test -json -vet=off -count=1 -timeout 25m ./...",
        source_commits=HOOK_COMMITS, add_only=True),
      engines=[dict(name="rapid",path="/verif/harness",serves_properties=[c['property_id'] for c in checks],kind_free_text="pgregory.net/rapid v1.3.0 property-based testing (generated cases, shrinking, seed pinning) driven by /verif/check; native go test -fuzz targets in the thorough tier; x/net http2+hpack and in-harness RFC references as oracles")],
      checks=checks,
      notes="All checks: ./check <ID> [--tier quick|thorough] [--replay file]. Exit 0 held / 1 VIOLATION / 2 inconclusive. VERIF_SEED pins rapid.",
      not_applicable=na)
    json.dump(m,open('/verif/MANIFEST.json','w'),indent=1)
main()
